"""Evaluate seeded changes (independent property-breaking patches written by sub-agents).

    python tools_seeded.py <dir-with-patch.diff-and-demo.py> [--checks C01,C02] [--tier quick] [--budget S]

For the given directory: a scratch copy of /repo's working tree (src, tests, config, input) is made outside /repo and /verif,
the patch is applied to it, then (1) the 48-test stable baseline is run against it, (2) demo.py is run against the patched
and the unpatched source, (3) the named checks (default: the property in meta.json / directory name) are run with
VP_RP2_SRC pointing at the patched copy. Evidence and replays of those runs go to the scratch directory. Prints one JSON
record. The scratch copy is removed afterwards. /repo itself is never modified.
"""

import argparse
import json
import os
import re
import shutil
import subprocess
import sys
import tempfile
import time

REPO = "/repo"
PY = "/venv/bin/python"
STABLE = "tests/test_accounting_method.py tests/test_balance.py tests/test_configuration.py tests/test_gain_loss.py tests/test_gain_loss_set.py tests/test_in_transaction.py tests/test_input_parser.py tests/test_intra_transaction.py tests/test_out_transaction.py tests/test_rp2_decimal.py tests/test_tax_engine.py tests/test_transaction_set.py".split()


def run_demo(demo: str, src: str) -> int:
    with tempfile.TemporaryDirectory(prefix="vp-demo-") as cwd:
        env = dict(os.environ, PYTHONPATH=src, PYTHONDONTWRITEBYTECODE="1")
        try:
            return subprocess.run([PY, demo], cwd=cwd, env=env, capture_output=True, text=True, timeout=600).returncode
        except subprocess.TimeoutExpired:
            return -9


def main() -> int:
    parser = argparse.ArgumentParser()
    parser.add_argument("directory")
    parser.add_argument("--checks", default="")
    parser.add_argument("--tier", default="quick")
    parser.add_argument("--budget", default="")
    parser.add_argument("--skip-tests", action="store_true")
    args = parser.parse_args()
    directory = os.path.abspath(args.directory)
    name = os.path.basename(directory.rstrip("/"))
    checks = [c for c in args.checks.split(",") if c]
    meta_path = os.path.join(directory, "meta.json")
    if not checks and os.path.exists(meta_path):
        checks = json.load(open(meta_path)).get("checks", [])
    if not checks:
        checks = [re.match(r"(C\d+)", name).group(1)]
    scratch = tempfile.mkdtemp(prefix="vp-seeded-")
    record = {"id": name, "checks": {}}
    try:
        work = os.path.join(scratch, "repo")
        os.makedirs(work)
        for item in ("src", "tests", "config", "input", "setup.cfg", "pyproject.toml", "mypy.ini"):
            source = os.path.join(REPO, item)
            if os.path.isdir(source):
                shutil.copytree(source, os.path.join(work, item), ignore=shutil.ignore_patterns("__pycache__", "*.egg-info", "golden"))
            elif os.path.exists(source):
                shutil.copy(source, work)
        # unpatched twin with the same shape (demos may locate config/ and input/ relative to the rp2 package)
        clean = os.path.join(scratch, "clean")
        shutil.copytree(work, clean)
        clean_src = os.path.join(clean, "src")
        proc = subprocess.run(["git", "apply", "--unsafe-paths", "--directory", work, os.path.join(directory, "patch.diff")], cwd=work, capture_output=True, text=True)
        if proc.returncode != 0:
            proc = subprocess.run(["patch", "-p1", "-s", "-i", os.path.join(directory, "patch.diff")], cwd=work, capture_output=True, text=True)
        record["patch_applies"] = proc.returncode == 0
        if proc.returncode != 0:
            record["patch_error"] = (proc.stderr + proc.stdout)[-300:]
            print(json.dumps(record))
            return 2
        src = os.path.join(work, "src")
        if not args.skip_tests:
            env = dict(os.environ, PYTHONPATH=src, PYTHONDONTWRITEBYTECODE="1")
            proc = subprocess.run([PY, "-m", "pytest", "-q", "-p", "no:cacheprovider", "--timeout=900"] + STABLE, cwd=work, env=env, capture_output=True, text=True, timeout=1800)
            tail = proc.stdout.strip().splitlines()[-1] if proc.stdout.strip() else ""
            record["stable_tests"] = tail
            record["stable_tests_pass"] = proc.returncode == 0 and "48 passed" in tail
        demo = os.path.join(directory, "demo.py")
        if os.path.exists(demo):
            record["demo_with_change"] = run_demo(demo, src)
            record["demo_without_change"] = run_demo(demo, clean_src)
        for check in checks:
            env = dict(os.environ, VP_RP2_SRC=src, RPV_EVIDENCE_DIR=os.path.join(scratch, "evidence"), RPV_REPLAY_DIR=os.path.join(scratch, "replays"))
            command = [PY, "-m", "rpv", check, "--tier", args.tier] + (["--budget", args.budget] if args.budget else [])
            t0 = time.time()
            proc = subprocess.run(command, cwd="/verif", env=env, capture_output=True, text=True, timeout=7200)
            rule = next((l.strip()[:260] for l in proc.stdout.splitlines() if l.strip().startswith("rule=")), "")
            record["checks"][check] = {"exit": proc.returncode, "caught": proc.returncode == 1 and "VIOLATION" in proc.stdout, "rule": rule, "wall_s": round(time.time() - t0, 1), "summary": proc.stdout.strip().splitlines()[0] if proc.stdout.strip() else proc.stderr[-200:]}
        print(json.dumps(record, indent=1))
    finally:
        shutil.rmtree(scratch, ignore_errors=True)
    return 0


if __name__ == "__main__":
    sys.exit(main())
