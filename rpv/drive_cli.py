"""CLI driver: runs the real rp2_<country> entry point in a subprocess with the monitors injected.

The command is `python -c "from rp2.plugin.country.<cc> import rp2_entry; rp2_entry()" <args>` - the same function the
rp2_<cc> console script calls - with the tree under test first on PYTHONPATH, cwd = a scratch directory (RP2 writes ./log
there), the audit-hook sitecustomize ahead of everything, and optionally under strace.
"""

from __future__ import annotations

import json
import os
import shutil
import subprocess
import zlib
from typing import Any, Dict, List, Optional, Sequence

from rpv import ods_io
from rpv.common import MONITOR_DIR, PYTHON, rp2_src

COUNTRIES = ("us", "jp", "es", "ie", "generic")
COUNTRY_METHODS = {"us": ["fifo", "hifo", "lifo", "lofo"], "generic": ["fifo", "hifo", "lifo", "lofo"], "es": ["fifo"], "ie": ["fifo"], "jp": ["fifo"]}
COUNTRY_LANGUAGES = {"us": ["en"], "generic": ["en"], "es": ["es"], "ie": ["en_IE"], "jp": ["en", "kl"]}
COUNTRY_REPORTS = {
    "us": ["open_positions", "rp2_full_report", "tax_report_us"],
    "generic": ["open_positions", "rp2_full_report"],
    "es": ["open_positions", "rp2_full_report"],
    "ie": ["open_positions", "rp2_full_report", "tax_report_ie"],
    "jp": ["open_positions", "rp2_full_report", "tax_report_jp"],
}
COUNTRY_DEFAULT_LANGUAGE = {"us": "en", "generic": "en", "es": "es", "ie": "en_IE", "jp": "ja"}


class CliResult:
    def __init__(self) -> None:
        self.exit: int = -1
        self.stdout: str = ""
        self.stderr: str = ""
        self.audit: List[Dict[str, Any]] = []
        self.strace: str = ""
        self.files: List[str] = []
        self.out_dir: str = ""
        self.cwd: str = ""
        self.timed_out: bool = False
        self.command: List[str] = []

    def report(self, name: str) -> Optional[str]:
        for f in self.files:
            if f.endswith(f"_{name}.ods"):
                return os.path.join(self.out_dir, f)
        return None


def run_cli(
    country: str,
    ini: str,
    ods: str,
    out_dir: str,
    cwd: str,
    args: Sequence[str] = (),
    env_extra: Optional[Dict[str, str]] = None,
    audit: bool = True,
    strace: bool = False,
    hashseed: str = "0",
    timeout: float = 300.0,
    home: Optional[str] = None,
    warmup: Optional[Sequence[Sequence[str]]] = None,
) -> CliResult:
    """warmup: complete argument lists (options, -o <dir>, config, input) of runs made first *in the same interpreter*; the
    result describes the last run only (what an earlier run leaves in module- or class-level state must not matter)."""
    result = CliResult()
    result.out_dir = out_dir
    result.cwd = cwd
    env = {k: v for k, v in os.environ.items() if k not in ("CURRENCY_CODE", "LONG_TERM_CAPITAL_GAINS", "RPV_AUDIT_LOG")}
    paths = [rp2_src()]
    audit_log = os.path.join(cwd, f"audit-{os.getpid()}-{len(os.listdir(cwd))}.jsonl")
    if audit:
        paths.insert(0, str(MONITOR_DIR))
        env["RPV_AUDIT_LOG"] = audit_log
        env["RPV_PACKAGE_ROOT"] = os.path.join(os.path.realpath(rp2_src()), "rp2") + os.sep
    if os.environ.get("RPV_REACH_LOG") and not audit:
        # reach recording (tools_reach.py): the injected sitecustomize starts it; audit recording stays off
        paths.insert(0, str(MONITOR_DIR))
        env["RPV_PACKAGE_ROOT"] = os.path.join(os.path.realpath(rp2_src()), "rp2") + os.sep
    env["PYTHONPATH"] = os.pathsep.join(paths)
    env["PYTHONDONTWRITEBYTECODE"] = "1"
    env["PYTHONHASHSEED"] = hashseed
    env["PYTHONFAULTHANDLER"] = "1"
    env["RP2_VERIF"] = "1"
    if home:
        env["HOME"] = home
    if country == "generic":
        # ISO 4217 codes are accepted in any letter case; which spelling a run gets is a function of its config file
        try:
            with open(ini, "rb") as handle:
                spelling = ("usd", "USD", "Eur", "jpy")[zlib.crc32(handle.read()) % 4]
        except OSError:
            spelling = "usd"
        env.setdefault("CURRENCY_CODE", spelling)
        env.setdefault("LONG_TERM_CAPITAL_GAINS", "365")
    if zlib.crc32((country + " " + " ".join(args)).encode()) % 4 == 0:
        # a quarter of all runs (a function of the options) log at debug level: what RP2 computes does not depend on how much it logs
        env["LOG_LEVEL"] = "DEBUG"
    if env_extra:
        for key, value in env_extra.items():
            if value is None:
                env.pop(key, None)
            else:
                env[key] = value
    code = f"from rp2.plugin.country.{country} import rp2_entry; rp2_entry()"
    if warmup:
        code = (
            f"import sys\nfrom rp2.plugin.country.{country} import rp2_entry\nfinal = sys.argv[1:]\n"
            f"for argv in {[list(a) for a in warmup]!r}:\n    sys.argv = ['rp2'] + argv\n    try:\n        rp2_entry()\n    except SystemExit:\n        pass\n"
            "sys.argv = ['rp2'] + final\nrp2_entry()"
        )
    command = [PYTHON, "-c", code] + list(args) + ["-o", out_dir, ini, ods]
    strace_log = os.path.join(cwd, f"strace-{os.getpid()}.log")
    if strace:
        command = ["strace", "-f", "-qq", "-e", "trace=network,execve,execveat,clone,clone3,fork,vfork", "-o", strace_log] + command
    result.command = command
    try:
        proc = subprocess.run(command, cwd=cwd, env=env, capture_output=True, text=True, timeout=timeout)
        result.exit = proc.returncode
        result.stdout = proc.stdout
        result.stderr = proc.stderr
    except subprocess.TimeoutExpired as exc:
        result.timed_out = True
        result.stdout = (exc.stdout or b"").decode(errors="replace") if isinstance(exc.stdout, bytes) else (exc.stdout or "")
        result.stderr = (exc.stderr or b"").decode(errors="replace") if isinstance(exc.stderr, bytes) else (exc.stderr or "")
    if audit and os.path.exists(audit_log):
        with open(audit_log, encoding="utf-8") as handle:
            for line in handle:
                try:
                    result.audit.append(json.loads(line))
                except ValueError:
                    pass
        os.remove(audit_log)
    if strace and os.path.exists(strace_log):
        with open(strace_log, encoding="utf-8", errors="replace") as handle:
            result.strace = handle.read()
        os.remove(strace_log)
    result.files = sorted(os.listdir(out_dir)) if os.path.isdir(out_dir) else []
    return result


class Workspace:
    """A scratch directory holding ini + ods + output dir for CLI runs of one generated input."""

    def __init__(self, root: str, name: str) -> None:
        self.root = os.path.join(root, name)
        os.makedirs(self.root, exist_ok=True)
        self.ini = os.path.join(self.root, "config.ini")
        self.ods = os.path.join(self.root, "input.ods")
        self.layout: Optional[Dict[str, Any]] = None
        self.n = 0

    def new_out(self) -> str:
        self.n += 1
        path = os.path.join(self.root, f"out{self.n}")
        os.makedirs(path, exist_ok=True)
        return path

    def write(
        self,
        histories: Dict[str, Dict[str, Any]],
        layout: Optional[Dict[str, Any]] = None,
        accounting_methods: Optional[Dict[int, str]] = None,
        rng: Any = None,
        sheet_order: Optional[List[str]] = None,
        config_assets: Optional[List[str]] = None,
    ) -> Dict[str, Dict[str, int]]:
        exchanges = sorted({e for h in histories.values() for e in h["exchanges"]})
        holders = sorted({x for h in histories.values() for x in h["holders"]})
        if layout is None:
            # every CLI workload also varies the column layout / table order of its input sheets
            layout = ods_io.derived_layout(histories)
        self.layout = layout
        ods_io.write_ini(self.ini, config_assets or sorted(histories), exchanges, holders, layout, accounting_methods)
        return ods_io.write_input(self.ods, histories, layout, rng, sheet_order)

    def run(self, country: str, args: Sequence[str] = (), out_dir: Optional[str] = None, **kw: Any) -> CliResult:
        return run_cli(country, self.ini, self.ods, out_dir or self.new_out(), self.root, args, **kw)

    def cleanup(self) -> None:
        shutil.rmtree(self.root, ignore_errors=True)
