"""Shared workload mixes built from rpv.gen and rpv.families."""

from __future__ import annotations

from typing import Any, Dict, List, Tuple

from rpv import families
from rpv.gen import METHODS, Profile, history, own_years, schedule

PROFILES: List[Tuple[str, Profile]] = [
    ("general", Profile()),
    ("income", Profile(p_earn=0.6, p_in=0.5, p_out=0.4, p_intra=0.1)),
    ("ties-mixed-tz", Profile(tie_prob=0.5, mixed_tz=True, price_style="equal")),
    ("long-gaps", Profile(gap_style="long", max_events=18)),
    ("boundary-mixed-tz", Profile(gap_style="boundary", mixed_tz=True, max_events=16)),
    ("dust-huge", Profile(amount_style="mixed", price_style="wide", max_events=20)),
    ("multi-account", Profile(n_exchanges=3, n_holders=2, p_intra=0.35, max_events=20)),
]


def deepen(ctx: Any, index: int, profile: Profile) -> Profile:
    """Thorough tier only: one input in sixteen is a long history (60-150 events) over more accounts; one in sixty-four is
    very long (300 events). The quick tier keeps the profile as it is. Decided from the case index, not from the rng, so
    the histories of the other cases do not depend on the tier."""
    if ctx.tier != "thorough":
        return profile
    if index % 64 == 7:
        return Profile(**{**profile.__dict__, "min_events": 200, "max_events": 300, "n_exchanges": max(profile.n_exchanges, 3), "n_holders": 2})
    if index % 16 == 3:
        return Profile(**{**profile.__dict__, "min_events": 60, "max_events": 150, "n_exchanges": max(profile.n_exchanges, 3)})
    return profile


def matcher_cases(ctx: Any, index: int) -> List[Tuple[str, Dict[str, Any], List[Dict[int, str]]]]:
    """One generated input -> list of (family, history, schedules to run it under)."""
    rng = ctx.rng("case", index)
    pick = rng.random()
    max_events_boost = (rng.choice((60, 60, 150)) if rng.random() < 0.1 else 0) if ctx.tier == "thorough" else 0
    if pick < 0.55:
        name, profile = PROFILES[rng.randrange(len(PROFILES))]
        if max_events_boost:
            profile = Profile(**{**profile.__dict__, "max_events": max_events_boost})
        hist = history(rng, profile)
        years = own_years(hist)
        schedules: List[Dict[int, str]] = [{1970: m} for m in METHODS]
        schedules.append(schedule(rng, years[0], years[-1]))
        return [(name, hist, schedules)]
    if pick < 0.70:
        hist = families.income_then_disposals(rng)
        return [("income-then-disposals", hist, [{1970: m} for m in METHODS])]
    if pick < 0.78:
        return [("better-lot-arrives", families.better_lot_arrives(rng), [{1970: m} for m in METHODS])]
    if pick < 0.86:
        return [("many-tiny-lots", families.many_tiny_lots(rng), [{1970: m} for m in METHODS])]
    if pick < 0.90:
        return [("same-instant-other-offset", families.same_instant_other_offset(rng), [{1970: m} for m in METHODS])]
    if pick < 0.93:
        return [("nearly-equal-prices", families.nearly_equal_prices(rng), [{1970: m} for m in METHODS])]
    hist, sched = families.year_boundary_switch(rng)
    return [("year-boundary-switch", hist, [sched])]


