"""Input-side model of a history in exact rational arithmetic.

This is *not* a re-implementation of the lot matcher: it only derives, per input row, the quantities the
documentation defines (amount leaving / entering, fiat values with their documented defaults, taxability) so
that oracles can compare what RP2 reports against the input.
"""

from __future__ import annotations

from datetime import date, datetime, timezone
from fractions import Fraction
from typing import Any, Dict, List, Optional, Tuple

from rpv.gen import EARN_TYPES, parse_ts


def F(text: Optional[str]) -> Optional[Fraction]:
    if text is None or text == "":
        return None
    return Fraction(text)


class Lot:
    __slots__ = ("row", "ts", "utc", "type", "earn", "account", "amount", "spot", "fiat_fee", "fiat_in_no_fee", "fiat_in_with_fee", "uid", "crypto_fee")

    def __init__(self, r: Dict[str, Any]) -> None:
        self.row: int = r["row"]
        self.ts: datetime = parse_ts(r["ts"])
        self.utc: datetime = self.ts.astimezone(timezone.utc)
        self.type: str = r["type"]
        self.earn: bool = r["type"] in EARN_TYPES
        self.account: Tuple[str, str] = (r["ex"], r["ho"])
        self.amount: Fraction = Fraction(r["cin"])
        self.spot: Fraction = Fraction(r["spot"])
        self.crypto_fee: Fraction = F(r.get("cfee")) or Fraction(0)
        ffee = F(r.get("ffee"))
        if ffee is None:
            ffee = self.crypto_fee * self.spot
        self.fiat_fee: Fraction = ffee
        nf = F(r.get("fin_nf"))
        self.fiat_in_no_fee: Fraction = nf if nf is not None else self.amount * self.spot
        wf = F(r.get("fin_wf"))
        self.fiat_in_with_fee: Fraction = wf if wf is not None else self.fiat_in_no_fee + self.fiat_fee
        self.uid: str = r["uid"]


class Event:
    """A taxable event as the statement of C03 defines it."""

    __slots__ = ("row", "ts", "utc", "table", "type", "earn", "amount", "taxable_fiat", "spot", "uid", "account")

    def __init__(self, row: int, ts: datetime, table: str, ttype: str, earn: bool, amount: Fraction, taxable_fiat: Fraction, spot: Fraction, uid: str, account: Tuple[str, str]):
        self.row = row
        self.ts = ts
        self.utc = ts.astimezone(timezone.utc)
        self.table = table
        self.type = ttype
        self.earn = earn
        self.amount = amount
        self.taxable_fiat = taxable_fiat
        self.spot = spot
        self.uid = uid
        self.account = account


class Model:
    def __init__(self, hist: Dict[str, Any]) -> None:
        self.asset: str = hist["asset"]
        self.rows: List[Dict[str, Any]] = hist["rows"]
        self.lots: Dict[int, Lot] = {}
        self.events: Dict[int, Event] = {}
        self.fee_less_transfers: List[int] = []
        self.tiny_fee_transfers: List[int] = []  # KF4 region: fee != 0 but fee*price < 5e-14
        self.artificial: Dict[int, int] = {}  # artificial id -> row of the IN transaction it models
        next_artificial = -1
        for r in self.rows:
            ts = parse_ts(r["ts"])
            if r["t"] == "IN":
                lot = Lot(r)
                self.lots[lot.row] = lot
                if lot.earn:
                    self.events[lot.row] = Event(lot.row, ts, "IN", lot.type, True, lot.amount, lot.fiat_in_with_fee, lot.spot, lot.uid, lot.account)
            elif r["t"] == "OUT":
                cout = Fraction(r["cout"])
                cfee = Fraction(r["cfee"])
                spot = Fraction(r["spot"])
                with_fee = F(r.get("cout_wf"))
                amount = with_fee if with_fee is not None else cout + cfee
                fout = F(r.get("fout_nf"))
                fiat_out_no_fee = fout if fout is not None else cout * spot
                ffee = F(r.get("ffee"))
                fiat_fee = ffee if ffee is not None else cfee * spot
                taxable = fiat_fee if r["type"] == "FEE" else fiat_out_no_fee
                self.events[r["row"]] = Event(r["row"], ts, "OUT", r["type"], False, amount, taxable, spot, r["uid"], (r["ex"], r["ho"]))
            elif r["t"] == "INTRA":
                sent = Fraction(r["sent"])
                recv = Fraction(r["recv"])
                fee = sent - recv
                spot = Fraction(r["spot"]) if r.get("spot") not in (None, "") else Fraction(0)
                if fee != 0:
                    if fee * spot < Fraction(5, 10**14):
                        self.tiny_fee_transfers.append(r["row"])
                    self.events[r["row"]] = Event(r["row"], ts, "INTRA", "MOVE", False, fee, fee * spot, spot, r["uid"], (r["fex"], r["fho"]))
                else:
                    self.fee_less_transfers.append(r["row"])
            else:
                raise ValueError(r["t"])
        # crypto fee on an IN row: the parser models it as an artificial FEE out-transaction with a negative id,
        # numbered in sheet-row order of the IN rows that carry a crypto fee
        for r in sorted((x for x in self.rows if x["t"] == "IN" and x.get("cfee")), key=lambda x: x["row"]):
            fee = Fraction(r["cfee"])
            if fee > 0:
                spot = Fraction(r["spot"])
                self.artificial[next_artificial] = r["row"]
                self.events[next_artificial] = Event(
                    next_artificial, parse_ts(r["ts"]), "OUT", "FEE", False, fee, fee * spot, spot, r["uid"], (r["ex"], r["ho"])
                )
                next_artificial -= 1

    # ---- helpers for oracles -------------------------------------------------------------------------

    def events_sorted(self) -> List[Event]:
        return sorted(self.events.values(), key=lambda e: e.utc)

    def overspend_instant(self) -> Optional[datetime]:
        """First instant at which lots acquired so far cannot cover what was disposed so far (None if never)."""
        points: Dict[datetime, List[Fraction]] = {}
        for lot in self.lots.values():
            points.setdefault(lot.utc, [Fraction(0), Fraction(0)])[0] += lot.amount
        for event in self.events.values():
            if not event.earn:
                points.setdefault(event.utc, [Fraction(0), Fraction(0)])[1] += event.amount
        acquired = Fraction(0)
        disposed = Fraction(0)
        for instant in sorted(points):
            acquired += points[instant][0]
            disposed += points[instant][1]
            if points[instant][1] > 0 and disposed > acquired:
                return instant
        return None

    def balances(self, to_date: Optional[date] = None) -> Dict[Tuple[str, str], Dict[str, Fraction]]:
        """Per-account acquired / sent / received / final from the input rows with own date <= to_date."""
        result: Dict[Tuple[str, str], Dict[str, Fraction]] = {}

        def slot(account: Tuple[str, str]) -> Dict[str, Fraction]:
            return result.setdefault(account, {"acquired": Fraction(0), "sent": Fraction(0), "received": Fraction(0), "final": Fraction(0)})

        for r in self.rows:
            if to_date is not None and parse_ts(r["ts"]).date() > to_date:
                continue
            if r["t"] == "IN":
                s = slot((r["ex"], r["ho"]))
                s["acquired"] += Fraction(r["cin"])
                s["final"] += Fraction(r["cin"])
                if r.get("cfee"):
                    # the artificial fee-only out-transaction
                    s["sent"] += Fraction(r["cfee"])
                    s["final"] -= Fraction(r["cfee"])
            elif r["t"] == "OUT":
                s = slot((r["ex"], r["ho"]))
                amount = Fraction(r["cout"]) + Fraction(r["cfee"])
                s["sent"] += amount
                s["final"] -= amount
            else:
                s = slot((r["fex"], r["fho"]))
                s["sent"] += Fraction(r["sent"])
                s["final"] -= Fraction(r["sent"])
                s = slot((r["tex"], r["tho"]))
                s["received"] += Fraction(r["recv"])
                s["final"] += Fraction(r["recv"])
        return result


def method_for_year(schedule: Dict[int, str], year: int) -> Optional[str]:
    best: Optional[int] = None
    for y in schedule:
        if y <= year and (best is None or y > best):
            best = y
    return schedule[best] if best is not None else None
