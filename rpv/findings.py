"""Known-findings file: committed, read-only at run time.

    finding: property=C10 key=KF1 <what fails>
    fixed: property=C01 <commit> <what failed>

A finding is identified by mechanism (the `key`, decided by a predicate in the check over the failing input and the
observed failure), never by seed, hash or random values. `fixed:` lines suppress nothing.
"""

from __future__ import annotations

import re
from typing import Dict

from rpv.common import KNOWN_FINDINGS

_LINE = re.compile(r"^finding:\s+property=(C\d+)\s+key=(\S+)\s+(.*)$")


def open_findings(prop: str) -> Dict[str, str]:
    result: Dict[str, str] = {}
    try:
        with open(KNOWN_FINDINGS, encoding="utf-8") as handle:
            for line in handle:
                match = _LINE.match(line.strip())
                if match and match.group(1) == prop:
                    result[match.group(2)] = match.group(3).strip()
    except FileNotFoundError:
        pass
    return result
