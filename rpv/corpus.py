"""The repository's own example inputs (input/*.ods with config/*.ini) as an additional, realistic workload.

The spreadsheets are read here with ezodf and the column maps of the matching ini file - not with RP2's parser - into the
same history records the generators produce (unique ids are added: the shipped files have none), so every oracle that takes
a history applies unchanged. Most of these inputs overdraw an account (the repository's golden tests run them with -n):
they are run with negative balances allowed and only oracles that do not need a valid balance history are applied.
"""

from __future__ import annotations

import configparser
import os
from decimal import Decimal
from typing import Any, Dict, List, Optional, Tuple

from rpv.common import rp2_src
from rpv.gen import TS_FORMAT, dstr
from rpv.ods_io import NUMERIC, ROW_KEYS, SECTION

PAIRS: List[Tuple[str, str]] = [
    ("crypto_example", "crypto_example"),
    ("test_data", "test_data"),
    ("test_data", "test_data2"),
    ("test_data", "test_data3"),
    ("test_data4", "test_data4"),
    ("test_data", "test_hifo"),
    ("test_data", "test_hifo2"),
    ("test_data", "test_many_year_data"),
    ("test_data_multi_method", "test_data_multi_method"),
]


def repo_root() -> str:
    root = os.path.dirname(os.path.realpath(rp2_src()))
    if os.path.isdir(os.path.join(root, "input")) and os.path.isdir(os.path.join(root, "config")):
        return root
    return "/repo"


def _list(text: str) -> List[str]:
    return [x.strip() for x in text.split(",") if x.strip()]


def read_config(path: str) -> Dict[str, Any]:
    parser = configparser.ConfigParser()
    parser.read(path, encoding="utf-8")
    general = next(s for s in parser.sections() if s.startswith("general"))
    result: Dict[str, Any] = {
        "assets": _list(parser[general]["assets"]),
        "exchanges": _list(parser[general]["exchanges"]),
        "holders": _list(parser[general]["holders"]),
        "columns": {},
        "methods": {},
    }
    for table, section in SECTION.items():
        result["columns"][table] = {k: int(v) for k, v in parser[section].items()}
    if parser.has_section("accounting_methods"):
        result["methods"] = {int(k): v for k, v in parser["accounting_methods"].items()}
    return result


def _timestamp(value: Any) -> str:
    from dateutil.parser import parse

    moment = parse(str(value))
    if moment.tzinfo is None:
        raise ValueError(f"timestamp without zone in a shipped input: {value!r}")
    return moment.strftime(TS_FORMAT)


def _number(value: Any) -> Optional[str]:
    if value is None or value == "":
        return None
    return dstr(Decimal("%.11f" % float(value)))


def read_input(ods_path: str, config: Dict[str, Any]) -> Dict[str, Dict[str, Any]]:
    import ezodf

    doc = ezodf.opendoc(ods_path)
    hists: Dict[str, Dict[str, Any]] = {}
    for sheet in doc.sheets:
        asset = sheet.name
        if asset not in config["assets"]:
            continue
        rows: List[Dict[str, Any]] = []
        counters = {"IN": 0, "OUT": 0, "INTRA": 0}
        table: Optional[str] = None
        header_pending = False
        for i in range(sheet.nrows()):
            cells = [c.value for c in sheet.row(i)]
            first = cells[0] if cells else None
            if table is None:
                if first in ("IN", "OUT", "INTRA"):
                    table = str(first)
                    header_pending = True
                continue
            if first == "TABLE END":
                table = None
                continue
            if header_pending:
                header_pending = False
                continue
            if all(c in (None, "") for c in cells):
                continue
            counters[table] += 1
            record: Dict[str, Any] = {"t": table, "row": i + 1, "uid": f"{asset}-{table}-{counters[table]}", "notes": ""}
            columns = config["columns"][table]
            for key, field in ROW_KEYS[table].items():
                if key in ("uid", "notes"):
                    continue
                value = cells[columns[field]] if field in columns and columns[field] < len(cells) else None
                if field == "timestamp":
                    record[key] = _timestamp(value)
                elif field in NUMERIC:
                    record[key] = _number(value)
                elif field == "transaction_type":
                    record[key] = str(value).upper()
                else:
                    record[key] = value
            if table == "OUT" and record.get("cfee") is None:
                record["cfee"] = "0"
            rows.append(record)
        if any(r["t"] == "IN" for r in rows):
            hists[asset] = {"asset": asset, "exchanges": config["exchanges"], "holders": config["holders"], "rows": rows}
    return hists


def corpus() -> List[Dict[str, Any]]:
    """[{name, hists, methods (schedule of the config, may be empty), exchanges, holders, assets}] for every shipped pair."""
    root = repo_root()
    result = []
    for config_name, input_name in PAIRS:
        ini = os.path.join(root, "config", f"{config_name}.ini")
        ods = os.path.join(root, "input", f"{input_name}.ods")
        if not (os.path.exists(ini) and os.path.exists(ods)):
            continue
        config = read_config(ini)
        hists = read_input(ods, config)
        result.append({"name": input_name, "hists": hists, "methods": config["methods"], "exchanges": config["exchanges"], "holders": config["holders"], "assets": config["assets"], "ini": ini, "ods": ods})
    return result
