"""Interpreter-level monitors attached from outside (sys.monitoring, Python 3.12): no source hooks needed.

LineMonitor   LINE events on the code objects of chosen functions: which statements (branches) of the anchored
              state machine the workload actually drove, and how many distinct line *sequences* were seen.
              Evidence only, never part of a verdict.
FloatMonitor  CALL events on every code object of the computation modules: any call to float(), Decimal.from_float,
              math.* or a __float__ method from those frames while a computation is running is recorded.
"""

from __future__ import annotations

import hashlib
import math
import sys
import types
from decimal import Decimal
from typing import Any, Callable, Dict, Iterable, List, Optional, Set, Tuple

_MON = sys.monitoring
LINE_TOOL = 3
CALL_TOOL = 4


def code_objects_of(obj: Any, seen: Optional[Set[int]] = None) -> List[types.CodeType]:
    """All code objects reachable from a module / class / function (methods, properties, nested functions)."""
    seen = seen if seen is not None else set()
    result: List[types.CodeType] = []

    def add_code(code: types.CodeType) -> None:
        if id(code) in seen:
            return
        seen.add(id(code))
        result.append(code)
        for const in code.co_consts:
            if isinstance(const, types.CodeType):
                add_code(const)

    def visit(item: Any, module_name: Optional[str]) -> None:
        if isinstance(item, (staticmethod, classmethod)):
            item = item.__func__
        if isinstance(item, property):
            for f in (item.fget, item.fset, item.fdel):
                if f is not None:
                    visit(f, module_name)
            return
        if isinstance(item, types.FunctionType):
            if module_name is None or item.__module__ == module_name:
                add_code(item.__code__)
            return
        if isinstance(item, type):
            if module_name is not None and item.__module__ != module_name:
                return
            if id(item) in seen:
                return
            seen.add(id(item))
            for value in vars(item).values():
                visit(value, module_name)

    if isinstance(obj, types.ModuleType):
        for value in vars(obj).values():
            visit(value, obj.__name__)
    else:
        visit(obj, None)
    return result


class LineMonitor:
    def __init__(self, functions: Iterable[Any]) -> None:
        self.codes: List[types.CodeType] = []
        for f in functions:
            self.codes.extend(code_objects_of(f))
        self.lines: Set[Tuple[str, int]] = set()
        self.sequences: Set[str] = set()
        self._current: Optional[Any] = None
        self._active = False

    def start(self) -> None:
        _MON.use_tool_id(LINE_TOOL, "rpv-lines")
        _MON.register_callback(LINE_TOOL, _MON.events.LINE, self._on_line)
        for code in self.codes:
            _MON.set_local_events(LINE_TOOL, code, _MON.events.LINE)
        self._active = True

    def stop(self) -> None:
        if self._active:
            for code in self.codes:
                _MON.set_local_events(LINE_TOOL, code, 0)
            _MON.register_callback(LINE_TOOL, _MON.events.LINE, None)
            _MON.free_tool_id(LINE_TOOL)
            self._active = False

    def begin_run(self) -> None:
        self._current = hashlib.sha1()

    def end_run(self) -> None:
        if self._current is not None:
            self.sequences.add(self._current.hexdigest()[:14])
        self._current = None

    def _on_line(self, code: types.CodeType, line: int) -> Any:
        self.lines.add((code.co_qualname, line))
        if self._current is not None:
            self._current.update(b"%d:%d;" % (hash(code.co_qualname) & 0xFFFF, line))
        return None


class FloatMonitor:
    """Records calls that let binary floating point into the computation."""

    def __init__(self, modules: Iterable[types.ModuleType]) -> None:
        self.codes: List[types.CodeType] = []
        seen: Set[int] = set()
        for module in modules:
            self.codes.extend(code_objects_of(module, seen))
        self.hits: List[Tuple[str, int, str]] = []
        self.calls_seen = 0
        self.armed = False
        self._active = False
        self._math = {id(v): f"math.{k}" for k, v in vars(math).items() if callable(v)}
        self._from_float = Decimal.from_float

    def start(self) -> None:
        _MON.use_tool_id(CALL_TOOL, "rpv-float")
        _MON.register_callback(CALL_TOOL, _MON.events.CALL, self._on_call)
        for code in self.codes:
            _MON.set_local_events(CALL_TOOL, code, _MON.events.CALL)
        self._active = True

    def stop(self) -> None:
        if self._active:
            for code in self.codes:
                _MON.set_local_events(CALL_TOOL, code, 0)
            _MON.register_callback(CALL_TOOL, _MON.events.CALL, None)
            _MON.free_tool_id(CALL_TOOL)
            self._active = False

    def _on_call(self, code: types.CodeType, offset: int, callee: Any, arg0: Any) -> Any:
        if not self.armed:
            return None
        self.calls_seen += 1
        name = None
        if callee is float:
            name = "float()"
        elif id(callee) in self._math:
            name = self._math[id(callee)]
        else:
            func = getattr(callee, "__func__", callee)
            qual = getattr(func, "__qualname__", "")
            if qual.endswith("from_float") or qual.endswith("__float__"):
                name = qual
            elif getattr(callee, "__name__", "") in ("from_float", "__float__"):
                name = getattr(callee, "__qualname__", callee.__name__)
        if name and len(self.hits) < 50:
            self.hits.append((code.co_qualname, offset, name))
        elif name:
            self.hits.append((code.co_qualname, offset, name)) if len(self.hits) < 100000 else None
        return None
