"""Reach recorder (sys.monitoring, Python 3.12): which functions of the package under test a process executed at least once.

Evidence about the monitors' reach only, never part of a verdict. Active when RPV_REACH_LOG names a file: every process (check
workers and, through sitecustomize, every CLI subprocess) appends one JSON line {"file": <path relative to the package>,
"name": <qualified name>} per function on its first call. The callback returns DISABLE, so each code object costs one event.
"""

import atexit
import json
import os
import sys

_started = False


def start(package_root: str, log_path: str) -> None:
    global _started
    if _started or not hasattr(sys, "monitoring"):
        return
    _started = True
    mon = sys.monitoring
    tool = mon.COVERAGE_ID
    try:
        mon.use_tool_id(tool, "rpv-reach")
    except ValueError:
        return
    root = os.path.realpath(package_root).rstrip(os.sep) + os.sep
    seen = set()

    def on_start(code, _offset):  # type: ignore[no-untyped-def]
        filename = code.co_filename
        if filename.startswith(root):
            seen.add((filename[len(root) :], code.co_qualname))
        return mon.DISABLE

    mon.register_callback(tool, mon.events.PY_START, on_start)
    mon.set_events(tool, mon.events.PY_START)

    def flush() -> None:
        try:
            fd = os.open(log_path, os.O_WRONLY | os.O_CREAT | os.O_APPEND, 0o644)
            try:
                os.write(fd, "".join(json.dumps({"file": f, "name": n}) + "\n" for f, n in sorted(seen)).encode())
            finally:
                os.close(fd)
        except OSError:
            pass

    atexit.register(flush)
