"""Audit-hook recorder injected into every CLI subprocess through PYTHONPATH (only active when RPV_AUDIT_LOG is set).

One JSON line per relevant interpreter audit event: sockets, name resolution, process creation, dynamic loading,
file opens for writing, renames / removals / mkdir, and imports (with the file of the *direct importer*, i.e. the first
frame outside importlib). The hook never raises and never changes behaviour.
"""

import os
import sys

_LOG = os.environ.get("RPV_AUDIT_LOG")

for _name in [n for n in os.environ.get("RPV_BLOCK_MODULES", "").split(",") if n]:
    # an interpreter built without an optional C accelerator (e.g. _decimal when libmpdec is missing): importing it fails
    sys.modules[_name] = None  # type: ignore[assignment]
_REACH_LOG = os.environ.get("RPV_REACH_LOG")  # read once, here: a lookup inside the audit hook would be attributed to the package

if _REACH_LOG and os.environ.get("RPV_PACKAGE_ROOT"):
    try:
        import reach as _reach  # this directory is first on sys.path when the hook is injected

        _reach.start(os.environ["RPV_PACKAGE_ROOT"], _REACH_LOG)
    except Exception:  # pylint: disable=broad-except
        pass

if _LOG:
    import json

    _fd = os.open(_LOG, os.O_WRONLY | os.O_CREAT | os.O_APPEND, 0o644)
    _WATCH_PREFIX = ("socket.", "subprocess.", "os.system", "os.exec", "os.posix_spawn", "os.fork", "os.forkpty", "os.spawn", "ctypes.dlopen", "webbrowser.", "urllib.", "http.", "ftplib.", "smtplib.", "poplib.", "imaplib.", "nntplib.", "telnetlib.", "os.startfile", "pty.spawn", "_posixsubprocess")
    _FS = ("os.rename", "os.remove", "os.rmdir", "os.mkdir", "os.truncate", "os.link", "os.symlink", "os.chmod", "os.chown", "shutil.", "os.utime")
    _WRITE_FLAGS = os.O_WRONLY | os.O_RDWR | os.O_APPEND | os.O_CREAT | os.O_TRUNC
    _busy = False

    def _importer():
        frame = sys._getframe(2)
        while frame is not None:
            name = frame.f_code.co_filename
            if "importlib" not in name and not name.startswith("<frozen") and name != __file__:
                return name
            frame = frame.f_back
        return ""

    def _emit(record):
        try:
            os.write(_fd, (json.dumps(record, default=str) + "\n").encode())
        except Exception:  # pylint: disable=broad-except
            pass

    def _hook(event, args):
        global _busy
        if _busy:
            return
        _busy = True
        try:
            if event == "open":
                path, mode, flags = (list(args) + [None, None, None])[:3]
                writing = False
                if isinstance(mode, str) and any(ch in mode for ch in "wax+"):
                    writing = True
                elif mode is None and isinstance(flags, int) and flags & _WRITE_FLAGS:
                    writing = True
                if writing and path != _LOG and path != _REACH_LOG:
                    _emit({"e": "open-write", "path": os.path.abspath(path) if isinstance(path, (str, bytes)) else path, "mode": mode, "flags": flags})
            elif event == "import":
                module = args[0]
                _emit({"e": "import", "module": module, "importer": _importer()})
            elif event.startswith(_WATCH_PREFIX):
                _emit({"e": event, "args": [repr(a)[:120] for a in args]})
            elif event.startswith(_FS):
                _emit({"e": event, "args": [os.path.abspath(a) if isinstance(a, str) else repr(a)[:120] for a in args]})
        except Exception:  # pylint: disable=broad-except
            pass
        finally:
            _busy = False

    sys.addaudithook(_hook)

    # The "import" audit event only fires when a module is actually loaded; an `import socket` executed after some
    # other code has already loaded socket would be invisible. Every import *statement* (and importlib.import_module call)
    # executed by a file of the package under test is therefore recorded too, cached or not.
    _PKG = os.environ.get("RPV_PACKAGE_ROOT", "")
    if _PKG:
        import builtins
        import importlib

        _orig_import = builtins.__import__
        _orig_import_module = importlib.import_module
        _seen = set()

        def _import(name, globals=None, locals=None, fromlist=(), level=0):
            try:
                importer = globals.get("__file__") if globals else None
                if importer and importer.startswith(_PKG):
                    base = name
                    if level:
                        package = (globals.get("__package__") or "").split(".")
                        package = package[: len(package) - (level - 1)]
                        base = ".".join([p for p in package if p] + ([name] if name else []))
                    key = (importer, base, tuple(fromlist or ()))
                    if key not in _seen:
                        _seen.add(key)
                        _emit({"e": "import-stmt", "module": base, "fromlist": list(fromlist or ()), "importer": importer})
            except Exception:  # pylint: disable=broad-except
                pass
            return _orig_import(name, globals, locals, fromlist, level)

        def _import_module(name, package=None):
            try:
                frame = sys._getframe(1)
                importer = frame.f_code.co_filename
                if importer.startswith(_PKG):
                    _emit({"e": "import-stmt", "module": name, "fromlist": [], "importer": importer, "dynamic": True})
            except Exception:  # pylint: disable=broad-except
                pass
            return _orig_import_module(name, package)

        builtins.__import__ = _import
        importlib.import_module = _import_module

        # Environment variables read by files of the package under test (os.environ[...], .get, `in`, os.getenv all end in
        # _Environ.__getitem__): the check re-runs its workload with every variable it saw being consulted set.
        _env_seen = set()
        _orig_env_getitem = os._Environ.__getitem__

        def _env_getitem(self, key):
            try:
                if self is os.environ and key not in _env_seen and not str(key).startswith("RPV_"):
                    frame = sys._getframe(1)
                    depth = 0
                    while frame is not None and depth < 6:
                        if frame.f_code.co_filename.startswith(_PKG):
                            _env_seen.add(key)
                            _emit({"e": "env-read", "name": key, "reader": frame.f_code.co_filename, "set": key in self._data or (hasattr(self, "encodekey") and self.encodekey(key) in self._data)})
                            break
                        frame = frame.f_back
                        depth += 1
            except Exception:  # pylint: disable=broad-except
                pass
            return _orig_env_getitem(self, key)

        os._Environ.__getitem__ = _env_getitem
