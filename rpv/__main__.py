import sys

from rpv.runner import main

sys.exit(main())
