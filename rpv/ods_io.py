"""ODS input writer (any column layout the config format allows), ini writer, and cell/formula reader for outputs."""

from __future__ import annotations

import random
from typing import Any, Dict, List, Optional, Sequence, Tuple

import ezodf

IN_FIELDS = ["timestamp", "asset", "exchange", "holder", "transaction_type", "spot_price", "crypto_in", "crypto_fee", "fiat_in_no_fee", "fiat_in_with_fee", "fiat_fee", "unique_id", "notes"]
OUT_FIELDS = ["timestamp", "asset", "exchange", "holder", "transaction_type", "spot_price", "crypto_out_no_fee", "crypto_fee", "crypto_out_with_fee", "fiat_out_no_fee", "fiat_fee", "unique_id", "notes"]
INTRA_FIELDS = ["timestamp", "asset", "from_exchange", "from_holder", "to_exchange", "to_holder", "spot_price", "crypto_sent", "crypto_received", "unique_id", "notes"]
FIELDS = {"IN": IN_FIELDS, "OUT": OUT_FIELDS, "INTRA": INTRA_FIELDS}
MANDATORY = {
    "IN": ["timestamp", "asset", "exchange", "holder", "transaction_type", "spot_price", "crypto_in"],
    "OUT": ["timestamp", "asset", "exchange", "holder", "transaction_type", "spot_price", "crypto_out_no_fee", "crypto_fee"],
    "INTRA": ["timestamp", "asset", "from_exchange", "from_holder", "to_exchange", "to_holder", "spot_price", "crypto_sent", "crypto_received"],
}
SECTION = {"IN": "in_header", "OUT": "out_header", "INTRA": "intra_header"}
NUMERIC = {"spot_price", "crypto_in", "crypto_fee", "fiat_in_no_fee", "fiat_in_with_fee", "fiat_fee", "crypto_out_no_fee", "crypto_out_with_fee", "fiat_out_no_fee", "crypto_sent", "crypto_received"}

# history row key -> config field name
ROW_KEYS = {
    "IN": {"ts": "timestamp", "ex": "exchange", "ho": "holder", "type": "transaction_type", "spot": "spot_price", "cin": "crypto_in", "cfee": "crypto_fee", "fin_nf": "fiat_in_no_fee", "fin_wf": "fiat_in_with_fee", "ffee": "fiat_fee", "uid": "unique_id", "notes": "notes"},
    "OUT": {"ts": "timestamp", "ex": "exchange", "ho": "holder", "type": "transaction_type", "spot": "spot_price", "cout": "crypto_out_no_fee", "cfee": "crypto_fee", "cout_wf": "crypto_out_with_fee", "fout_nf": "fiat_out_no_fee", "ffee": "fiat_fee", "uid": "unique_id", "notes": "notes"},
    "INTRA": {"ts": "timestamp", "fex": "from_exchange", "fho": "from_holder", "tex": "to_exchange", "tho": "to_holder", "spot": "spot_price", "sent": "crypto_sent", "recv": "crypto_received", "uid": "unique_id", "notes": "notes"},
}


def default_layout() -> Dict[str, Any]:
    """All fields mapped, in the canonical order, tables IN, OUT, INTRA, no junk, one blank row between tables."""
    return {
        "columns": {t: {f: i for i, f in enumerate(FIELDS[t])} for t in FIELDS},
        "ncols": {t: len(FIELDS[t]) for t in FIELDS},
        "table_order": ["IN", "OUT", "INTRA"],
        "blank_rows": 1,
        "leading_blank_rows": 0,
        "junk": {t: [] for t in FIELDS},
    }


def random_layout(rng: random.Random, need: Optional[Dict[str, set]] = None) -> Dict[str, Any]:
    """Random injective field->column map per table; the first column holds a mandatory field; optional fields mapped or
    omitted (fields in `need[table]` are always mapped); 0-5 unmapped junk columns; any table order; 0-3 blank rows."""
    layout: Dict[str, Any] = {"columns": {}, "ncols": {}, "junk": {}, "table_order": rng.sample(["IN", "OUT", "INTRA"], 3), "blank_rows": rng.choice((0, 1, 1, 2, 3, 3, 12, 40, 130))}
    # now and then the tables start far down the sheet (as after thousands of earlier rows): sheet rows - RP2's transaction ids -
    # then lie in the range of calendar years
    layout["leading_blank_rows"] = rng.choice((0,) * 12 + (3, 60, rng.randint(1985, 2030)))
    layout["sheet_order_seed"] = rng.choice((None, rng.randint(0, 10**6), rng.randint(0, 10**6)))
    layout["extra_sheet_at"] = rng.choice((None, None, rng.randint(0, 5)))
    for table, fields in FIELDS.items():
        must = set(MANDATORY[table]) | (need or {}).get(table, set())
        chosen = [f for f in fields if f in must or rng.random() < 0.6]
        n_junk = rng.randint(0, 5)
        ncols = len(chosen) + n_junk
        positions = list(range(ncols))
        rng.shuffle(positions)
        # column 0 must hold a mandatory field that is never empty (the parser treats an empty first cell as an error);
        # timestamp / asset / exchange... all qualify
        # (a numeric field that is never empty qualifies too - its value may be 0, which is not an empty cell; the spot price of
        # a transfer may be left empty, so it does not)
        first_field = rng.choice([f for f in MANDATORY[table] if not (table == "INTRA" and f == "spot_price")])
        mapping: Dict[str, int] = {first_field: 0}
        free = [p for p in positions if p != 0]
        for f in chosen:
            if f == first_field:
                continue
            mapping[f] = free.pop()
        layout["columns"][table] = mapping
        layout["ncols"][table] = ncols
        layout["junk"][table] = sorted(free)
    return layout


def derived_layout(histories: Dict[str, Dict[str, Any]]) -> Dict[str, Any]:
    """Layout chosen as a function of the input's content (so that a replayed case gets the same one): one third of the
    inputs use the canonical layout, the others a random column permutation, table order, junk columns and blank rows. Every
    field that carries a value in some row, and the unique id, is always mapped."""
    import hashlib
    import json

    digest = hashlib.sha1(json.dumps(histories, sort_keys=True, default=str).encode()).hexdigest()
    seed = int(digest[:12], 16)
    if seed % 3 == 0:
        return default_layout()
    need: Dict[str, set] = {"IN": {"unique_id"}, "OUT": {"unique_id"}, "INTRA": {"unique_id"}}
    for hist in histories.values():
        for r in hist["rows"]:
            for key, field in ROW_KEYS[r["t"]].items():
                if r.get(key) not in (None, ""):
                    need[r["t"]].add(field)
    return random_layout(random.Random(seed), need=need)


def write_ini(
    path: str,
    assets: Sequence[str],
    exchanges: Sequence[str],
    holders: Sequence[str],
    layout: Optional[Dict[str, Any]] = None,
    accounting_methods: Optional[Dict[int, str]] = None,
    extra: str = "",
) -> None:
    with open(path, "w", encoding="utf-8") as handle:
        handle.write(ini_text(assets, exchanges, holders, layout, accounting_methods, extra))


def ini_text(
    assets: Sequence[str],
    exchanges: Sequence[str],
    holders: Sequence[str],
    layout: Optional[Dict[str, Any]] = None,
    accounting_methods: Optional[Dict[int, str]] = None,
    extra: str = "",
) -> str:
    layout = layout or default_layout()
    lines = ["[general]", f"assets = {', '.join(assets)}", f"exchanges = {', '.join(exchanges)}", f"holders = {', '.join(holders)}"]
    import zlib

    if zlib.crc32(repr((sorted(assets), sorted(layout["columns"]["IN"].items()))).encode()) % 3 == 0:
        # fields the [general] section does not know are ignored; these are named after command-line options and say the opposite
        # of what the run is given
        lines += ["allow_negative_balances = false", "accounting_method = lofo", "from_date = 2099-01-01", "to_date = 1971-01-01", "generation_language = xx", "prefix = zz_"]
    lines.append("")
    for table in ("IN", "OUT", "INTRA"):
        lines.append(f"[{SECTION[table]}]")
        for field, column in sorted(layout["columns"][table].items(), key=lambda kv: kv[1]):
            lines.append(f"{field} = {column}")
        lines.append("")
    if accounting_methods:
        lines.append("[accounting_methods]")
        entries = list(accounting_methods.items())
        if len(entries) > 1:
            # the section is a mapping: its entries are listed in ascending, descending or arbitrary order (a function of the entries)
            import zlib

            seed = zlib.crc32(repr(sorted(entries)).encode())
            if seed % 3 == 1:
                entries = sorted(entries, reverse=True)
            elif seed % 3 == 2:
                random.Random(seed).shuffle(entries)
        for year, method in entries:
            lines.append(f"{year} = {method}")
        lines.append("")
    if extra:
        lines.append(extra)
    return "\n".join(lines) + "\n"


def _cell_value(field: str, text: Any) -> Any:
    if isinstance(text, dict) and "raw" in text:
        return text["raw"]  # fault injection: the cell content exactly as given
    if text is None or text == "":
        return None
    if field in NUMERIC:
        return float(text)
    if field == "transaction_type" and isinstance(text, str):
        import zlib

        # exchanges export "Buy", "buy" or "BUY": the type is case-insensitive
        style = zlib.crc32(text.encode()) % 3
        return text if style == 0 else (text.title() if style == 1 else text.lower())
    if field == "timestamp" and isinstance(text, str):
        from rpv.gen import TS_FORMAT, render_ts

        try:
            return render_ts(text)  # same instant and offset, one of several export formats
        except ValueError:
            return text  # a deliberately faulty timestamp (C12): as given
    return text


def write_input(
    path: str,
    histories: Dict[str, Dict[str, Any]],
    layout: Optional[Dict[str, Any]] = None,
    rng: Optional[random.Random] = None,
    sheet_order: Optional[List[str]] = None,
    faults: Optional[Dict[str, Any]] = None,
) -> Dict[str, Dict[str, int]]:
    """Write one sheet per asset. Rows of each table are written in the order of their current "row" field (so a caller
    can shuffle by re-assigning it); every row's "row" field is then *overwritten* with its 1-based sheet row, which is the
    id RP2 will give the transaction. Returns {asset: {unique_id: sheet_row}}.

    faults (C12): {"asset": .., "drop_table_end": "OUT", "extra_rows": [(after_sheet_row, [cells])], ...} - see checks/c12.
    """
    layout = layout or default_layout()
    rng = rng or random.Random(0)
    doc = ezodf.newdoc("ods", path)
    ids: Dict[str, Dict[str, int]] = {}
    order = list(sheet_order or histories)
    if sheet_order is None and layout.get("sheet_order_seed") is not None:
        random.Random(layout["sheet_order_seed"]).shuffle(order)  # asset sheets in any order inside the file
    extra_sheet_at = layout.get("extra_sheet_at") if sheet_order is None else None
    for position, asset in enumerate(order):
        if extra_sheet_at is not None and position == extra_sheet_at % len(order):
            # a sheet that is no asset's (the user's own notes) among the asset sheets
            notes = ezodf.Sheet("Notes", size=(3, 2))
            notes[0, 0].set_value("IN")
            notes[1, 0].set_value("my notes - not an asset sheet")
            notes[2, 1].set_value(12345.678)
            doc.sheets += notes
        hist = histories[asset]
        grid: List[List[Any]] = [[] for _ in range(layout.get("leading_blank_rows", 0))]
        ids[asset] = {}
        for table in layout["table_order"]:
            rows = sorted((r for r in hist["rows"] if r["t"] == table), key=lambda r: r["row"])
            if table != "IN" and not rows and rng.random() < 0.5:
                continue  # empty OUT / INTRA tables may be left out entirely
            ncols = layout["ncols"][table]
            mapping = layout["columns"][table]
            junk = layout["junk"][table]
            grid.append([table])
            header = [""] * ncols
            for field, column in mapping.items():
                header[column] = field.upper() if rng.random() < 0.5 else f"{field} col"
            for column in junk:
                header[column] = "junk"
            if not header[0]:
                header[0] = "header"
            grid.append(header)
            for r in rows:
                cells: List[Any] = [None] * ncols
                for key, field in ROW_KEYS[table].items():
                    if field in mapping:
                        cells[mapping[field]] = _cell_value(field, r.get(key))
                if "asset" in mapping:
                    cells[mapping["asset"]] = r.get("asset_override", asset)
                for column in junk:
                    # decoy numbers / strings in unmapped columns
                    cells[column] = rng.choice((rng.randint(1, 99999) / 7.0, "decoy", 12345.678, None))
                grid.append(cells)
                r["row"] = len(grid)
                ids[asset][r["uid"]] = len(grid)
            grid.append(["TABLE END"])
            for _ in range(layout["blank_rows"]):
                grid.append([])
        if faults and faults.get("asset") == asset and faults.get("grid_edit"):
            faults["grid_edit"](grid)
        width = max((len(row) for row in grid), default=1)
        sheet = ezodf.Sheet(asset, size=(max(1, len(grid)), max(1, width)))
        for i, row in enumerate(grid):
            for j, value in enumerate(row):
                if value is not None:
                    sheet[i, j].set_value(value)
        doc.sheets += sheet
    doc.save()
    return ids


# ---------------------------------------------------------------------------------------------------------
# reading outputs
# ---------------------------------------------------------------------------------------------------------


class Cell:
    __slots__ = ("value", "formula")

    def __init__(self, value: Any, formula: Optional[str]) -> None:
        self.value = value
        self.formula = formula

    def __repr__(self) -> str:
        return f"Cell({self.value!r}, {self.formula!r})" if self.formula else f"Cell({self.value!r})"


class SheetData:
    def __init__(self, name: str, rows: List[List[Cell]]) -> None:
        self.name = name
        self.rows = rows

    def cell(self, r: int, c: int) -> Cell:
        if 0 <= r < len(self.rows) and 0 <= c < len(self.rows[r]):
            return self.rows[r][c]
        return Cell(None, None)

    def value(self, r: int, c: int) -> Any:
        return self.cell(r, c).value

    def row_values(self, r: int) -> List[Any]:
        return [c.value for c in self.rows[r]] if 0 <= r < len(self.rows) else []

    def row_is_blank(self, r: int) -> bool:
        return all((c.value is None or c.value == "") and not c.formula for c in (self.rows[r] if 0 <= r < len(self.rows) else []))

    def find_row(self, text: str, column: int = 0, start: int = 0) -> Optional[int]:
        for r in range(start, len(self.rows)):
            if self.value(r, column) == text:
                return r
        return None

    def matrix(self) -> List[List[Any]]:
        """Semantic content: per cell the value, or the formula text where there is one (trailing blanks trimmed)."""
        out = []
        for row in self.rows:
            cells = [(c.formula if c.formula else c.value) for c in row]
            while cells and cells[-1] in (None, ""):
                cells.pop()
            out.append(cells)
        while out and not out[-1]:
            out.pop()
        return out


def read_ods(path: str) -> Dict[str, SheetData]:
    doc = ezodf.opendoc(path)
    result: Dict[str, SheetData] = {}
    for sheet in doc.sheets:
        rows = []
        for r in range(sheet.nrows()):
            rows.append([Cell(c.value, c.formula) for c in sheet.row(r)])
        result[sheet.name] = SheetData(sheet.name, rows)
    return result


def sheet_names(path: str) -> List[str]:
    doc = ezodf.opendoc(path)
    return [s.name for s in doc.sheets]
