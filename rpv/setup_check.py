"""MANIFEST.setup_cmd: nothing to build; verify that what the checks need is present (offline)."""

import shutil
import sys


def main() -> int:
    problems = []
    if sys.version_info < (3, 12):
        problems.append(f"python >= 3.12 needed for sys.monitoring, found {sys.version}")
    for module in ("ezodf", "dateutil", "jsonschema", "prezzemolo", "babel", "pycountry"):
        try:
            __import__(module)
        except ImportError as exc:
            problems.append(f"missing python module {module}: {exc}")
    if shutil.which("strace") is None:
        problems.append("strace not found (C18's syscall cross-check would be inconclusive)")
    try:
        from rpv.common import use_tree_under_test

        use_tree_under_test()
        import os
        import tempfile

        cwd = os.getcwd()
        with tempfile.TemporaryDirectory(prefix="vp-setup-") as scratch:
            os.chdir(scratch)
            try:
                import rp2.tax_engine  # noqa: F401
            finally:
                os.chdir(cwd)
    except Exception as exc:  # pylint: disable=broad-except
        problems.append(f"the tree under test does not import: {exc}")
    for p in problems:
        print("setup:", p)
    print("setup ok" if not problems else "setup FAILED")
    return 1 if problems else 0


if __name__ == "__main__":
    sys.exit(main())
