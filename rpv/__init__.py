"""rpv: runtime-monitoring framework for eprbell/rp2 (properties C01..C20).

Run with /venv/bin/python (3.12; has RP2's dependencies):

    python -m rpv C01 --tier quick
"""
