"""Offline checkers over a recorded fraction trace (the history of one run) against the *input* model.

Every function returns a list of violation dicts {"rule": <short id>, "detail": <json-able>}; an empty list means the
property held on this trace. None of them re-implements the lot matcher: they only relate what was emitted to the
input rows (ordering, conservation, exactly-once, exactness).
"""

from __future__ import annotations

from datetime import date, timedelta
from fractions import Fraction
from typing import Any, Dict, List, Optional, Sequence, Tuple

from rpv.drive_inproc import Fraction_
from rpv.model import Event, Lot, Model, method_for_year

REL = Fraction(1, 10**15)


def _v(rule: str, **detail: Any) -> Dict[str, Any]:
    return {"rule": rule, "detail": {k: (str(v) if isinstance(v, Fraction) else v) for k, v in detail.items()}}


# ---------------------------------------------------------------------------------------------------------
# C01: ordering
# ---------------------------------------------------------------------------------------------------------


def strictly_better(method: str, cand: Lot, chosen: Lot) -> bool:
    if method == "fifo":
        return cand.utc < chosen.utc
    if method == "lifo":
        return cand.utc > chosen.utc
    if method == "hifo":
        return cand.spot > chosen.spot
    if method == "lofo":
        return cand.spot < chosen.spot
    raise ValueError(method)


class OrderStats:
    def __init__(self) -> None:
        self.fractions = 0
        self.decisions = 0  # fractions at which >= 2 candidates of different rank existed
        self.max_candidates = 0
        self.kf5 = 0


def check_order(model: Model, trace: Sequence[Fraction_], schedule: Dict[int, str], stats: Optional[OrderStats] = None) -> List[Dict[str, Any]]:
    """Every non-income fraction comes from a lot that no available lot strictly outranks under the method in force."""
    violations: List[Dict[str, Any]] = []
    remaining: Dict[int, Fraction] = {row: lot.amount for row, lot in model.lots.items()}
    lots_by_time = sorted(model.lots.values(), key=lambda l: l.utc)
    seen_events: Dict[int, Event] = {}  # taxable events in first-appearance (= processing) order
    for f in trace:
        event = model.events.get(f.event)
        if f.lot is None:
            if event is not None:
                seen_events.setdefault(event.row, event)
            continue
        lot = model.lots.get(f.lot)
        if event is None or lot is None:
            violations.append(_v("order.unknown-id", event=f.event, lot=f.lot))
            continue
        method = method_for_year(schedule, event.ts.year)
        if method is None:
            violations.append(_v("order.no-method", event=f.event, year=event.ts.year))
            continue
        candidates = [c for c in lots_by_time if c.utc <= event.utc and remaining[c.row] > 0]
        if stats is not None:
            stats.fractions += 1
            stats.max_candidates = max(stats.max_candidates, len(candidates))
            if any(strictly_better(method, a, b) for a in candidates for b in candidates):
                stats.decisions += 1
        better = [c for c in candidates if c.row != lot.row and strictly_better(method, c, lot)]
        if better:
            # KF5 mechanism: a same-instant taxable predecessor whose own-year method differs
            kf5 = any(
                p.utc == event.utc and p.row != event.row and method_for_year(schedule, p.ts.year) != method for p in seen_events.values()
            )
            if stats is not None and kf5:
                stats.kf5 += 1
            violations.append(
                _v(
                    "order.better-lot-passed-over",
                    mechanism="KF5" if kf5 else "",
                    event=f.event,
                    event_ts=str(event.ts),
                    method=method,
                    chosen=lot.row,
                    chosen_ts=str(lot.ts),
                    chosen_spot=lot.spot,
                    better=[(c.row, str(c.ts), str(c.spot), str(remaining[c.row])) for c in better[:3]],
                )
            )
        remaining[lot.row] -= f.amount
        seen_events.setdefault(event.row, event)
    return violations


# ---------------------------------------------------------------------------------------------------------
# C02: coverage / no overspend
# ---------------------------------------------------------------------------------------------------------


def check_coverage(model: Model, trace: Sequence[Fraction_], complete: bool = True, up_to: Optional[date] = None) -> List[Dict[str, Any]]:
    """Positive amounts; per-event sums equal the outgoing amount; no lot overspent at any prefix; lot not after event."""
    violations: List[Dict[str, Any]] = []
    per_event: Dict[int, Fraction] = {}
    per_lot: Dict[int, Fraction] = {}
    for index, f in enumerate(trace):
        event = model.events.get(f.event)
        if event is None:
            violations.append(_v("coverage.unknown-event", event=f.event))
            continue
        if f.amount <= 0:
            violations.append(_v("coverage.non-positive-amount", event=f.event, lot=f.lot, amount=f.amount))
        per_event[f.event] = per_event.get(f.event, Fraction(0)) + f.amount
        if per_event[f.event] > event.amount:
            violations.append(_v("coverage.event-overmatched", event=f.event, matched=per_event[f.event], amount=event.amount, index=index))
        if f.lot is not None:
            lot = model.lots.get(f.lot)
            if lot is None:
                violations.append(_v("coverage.unknown-lot", lot=f.lot))
                continue
            per_lot[f.lot] = per_lot.get(f.lot, Fraction(0)) + f.amount
            if per_lot[f.lot] > lot.amount:
                violations.append(_v("coverage.lot-overspent", lot=f.lot, taken=per_lot[f.lot], amount=lot.amount, index=index))
            if lot.utc > event.utc:
                violations.append(_v("coverage.lot-after-event", event=f.event, lot=f.lot, event_ts=str(event.ts), lot_ts=str(lot.ts)))
    if complete:
        for row, event in model.events.items():
            if up_to is not None and event.ts.date() > up_to:
                continue
            got = per_event.get(row, Fraction(0))
            if got != event.amount:
                violations.append(_v("coverage.event-not-fully-matched", event=row, matched=got, amount=event.amount, type=event.type))
    return violations


def consumed_per_lot(trace: Sequence[Fraction_]) -> Dict[int, Fraction]:
    result: Dict[int, Fraction] = {}
    for f in trace:
        if f.lot is not None:
            result[f.lot] = result.get(f.lot, Fraction(0)) + f.amount
    return result


# ---------------------------------------------------------------------------------------------------------
# C03: exactly the taxable transactions
# ---------------------------------------------------------------------------------------------------------


def check_taxable(model: Model, taxable_ids: Sequence[int], taxable_types: Dict[int, str], trace: Sequence[Fraction_]) -> Tuple[List[Dict[str, Any]], List[Dict[str, Any]]]:
    """Returns (violations, known) where known are KF4-mechanism omissions (transfer fee worth < 5e-14 fiat)."""
    violations: List[Dict[str, Any]] = []
    known: List[Dict[str, Any]] = []
    got = list(taxable_ids)
    if len(got) != len(set(got)):
        violations.append(_v("taxable.duplicate-event", ids=sorted(x for x in set(got) if got.count(x) > 1)))
    expected = set(model.events)
    missing = expected - set(got)
    extra = set(got) - expected
    for row in sorted(missing):
        if row in model.tiny_fee_transfers:
            known.append(_v("taxable.missing-event", mechanism="KF4", event=row))
        else:
            violations.append(_v("taxable.missing-event", event=row, type=model.events[row].type))
    for row in sorted(extra):
        violations.append(_v("taxable.unexpected-event", event=row))
    for row in set(got) & expected:
        if taxable_types.get(row) != model.events[row].type:
            violations.append(_v("taxable.wrong-type", event=row, got=taxable_types.get(row), expected=model.events[row].type))

    per_event: Dict[int, List[Fraction_]] = {}
    for f in trace:
        per_event.setdefault(f.event, []).append(f)
    for row, fractions in per_event.items():
        event = model.events.get(row)
        if event is None:
            violations.append(_v("taxable.fraction-of-non-taxable", event=row))
            continue
        for f in fractions:
            if f.event_type != event.type:
                violations.append(_v("taxable.fraction-wrong-type", event=row, got=f.event_type, expected=event.type))
        if event.earn:
            if len(fractions) != 1:
                violations.append(_v("taxable.earn-not-once", event=row, count=len(fractions)))
            f = fractions[0]
            if f.lot is not None:
                violations.append(_v("taxable.earn-has-lot", event=row, lot=f.lot))
            if f.amount != event.amount:
                violations.append(_v("taxable.earn-amount", event=row, got=f.amount, expected=event.amount))
            if f.cost != 0:
                violations.append(_v("taxable.earn-cost-basis", event=row, got=f.cost))
            if abs(f.proceeds - event.taxable_fiat) > REL * abs(event.taxable_fiat):
                violations.append(_v("taxable.earn-proceeds", event=row, got=f.proceeds, expected=event.taxable_fiat))
        else:
            for f in fractions:
                if f.lot is None:
                    violations.append(_v("taxable.disposal-without-lot", event=row))
    for row in expected - set(per_event):
        if row in model.tiny_fee_transfers:
            continue
        violations.append(_v("taxable.event-without-fraction", event=row, type=model.events[row].type))
    return violations, known


# ---------------------------------------------------------------------------------------------------------
# C04: exactness
# ---------------------------------------------------------------------------------------------------------


class ExactStats:
    def __init__(self) -> None:
        self.fractions = 0
        self.max_rel_err = Fraction(0)
        self.reassembled_events = 0
        self.reassembled_lots = 0


def check_exact(model: Model, trace: Sequence[Fraction_], stats: Optional[ExactStats] = None, exact: bool = False, rel: Fraction = REL) -> List[Dict[str, Any]]:
    violations: List[Dict[str, Any]] = []
    sum_proceeds: Dict[int, Fraction] = {}
    sum_amount: Dict[int, Fraction] = {}
    sum_cost: Dict[int, Fraction] = {}
    sum_lot_amount: Dict[int, Fraction] = {}
    for f in trace:
        event = model.events.get(f.event)
        if event is None:
            continue
        exp_proceeds = event.taxable_fiat * f.amount / event.amount
        exp_cost = Fraction(0)
        if f.lot is not None and f.lot in model.lots:
            lot = model.lots[f.lot]
            exp_cost = lot.fiat_in_with_fee * f.amount / lot.amount
            sum_cost[f.lot] = sum_cost.get(f.lot, Fraction(0)) + f.cost
            sum_lot_amount[f.lot] = sum_lot_amount.get(f.lot, Fraction(0)) + f.amount
        exp_gain = exp_proceeds - exp_cost
        scale = max(abs(exp_proceeds), abs(exp_cost))
        tolerance = Fraction(0) if exact else rel * scale
        for name, got, exp in (("proceeds", f.proceeds, exp_proceeds), ("cost", f.cost, exp_cost), ("gain", f.gain, exp_gain)):
            err = abs(got - exp)
            if stats is not None and scale > 0:
                stats.max_rel_err = max(stats.max_rel_err, err / scale)
            if err > tolerance:
                violations.append(_v(f"exact.{name}", event=f.event, lot=f.lot, got=float(got), expected=float(exp), rel_err=float(err / scale) if scale else None))
        if f.gain != f.proceeds - f.cost and abs(f.gain - (f.proceeds - f.cost)) > tolerance:
            violations.append(_v("exact.gain-not-difference", event=f.event, lot=f.lot))
        sum_proceeds[f.event] = sum_proceeds.get(f.event, Fraction(0)) + f.proceeds
        sum_amount[f.event] = sum_amount.get(f.event, Fraction(0)) + f.amount
        if stats is not None:
            stats.fractions += 1
    # re-assembly
    for row, total in sum_proceeds.items():
        event = model.events[row]
        if sum_amount[row] == event.amount:
            if stats is not None:
                stats.reassembled_events += 1
            tolerance = Fraction(0) if exact else rel * abs(event.taxable_fiat) * max(1, len(trace))
            if abs(total - event.taxable_fiat) > tolerance:
                violations.append(_v("exact.event-reassembly", event=row, got=float(total), expected=float(event.taxable_fiat)))
    for row, total in sum_cost.items():
        lot = model.lots[row]
        if sum_lot_amount[row] == lot.amount:
            if stats is not None:
                stats.reassembled_lots += 1
            tolerance = Fraction(0) if exact else rel * abs(lot.fiat_in_with_fee) * max(1, len(trace))
            if abs(total - lot.fiat_in_with_fee) > tolerance:
                violations.append(_v("exact.lot-reassembly", lot=row, got=float(total), expected=float(lot.fiat_in_with_fee)))
    return violations


# ---------------------------------------------------------------------------------------------------------
# C05: long / short
# ---------------------------------------------------------------------------------------------------------


def expected_long(event: Event, lot: Optional[Lot], period: Optional[int]) -> bool:
    """period None = never long-term."""
    if lot is None or period is None:
        return False
    whole_days = (event.utc - lot.utc) // timedelta(days=1)
    return whole_days >= period


def check_long_short(model: Model, trace: Sequence[Fraction_], period: Optional[int]) -> List[Dict[str, Any]]:
    violations: List[Dict[str, Any]] = []
    for f in trace:
        event = model.events.get(f.event)
        if event is None:
            continue
        lot = model.lots.get(f.lot) if f.lot is not None else None
        exp = expected_long(event, lot, period)
        if f.long != exp:
            violations.append(
                _v(
                    "longshort.flag",
                    event=f.event,
                    lot=f.lot,
                    got=f.long,
                    expected=exp,
                    event_ts=str(event.ts),
                    lot_ts=str(lot.ts) if lot else None,
                    period=period,
                )
            )
    return violations


# ---------------------------------------------------------------------------------------------------------
# C06: yearly summary
# ---------------------------------------------------------------------------------------------------------


def check_yearly(
    model: Model,
    trace_up_to: Sequence[Fraction_],
    yearly: Sequence[Tuple[int, str, str, bool, Fraction, Fraction, Fraction, Fraction]],
    from_year: Optional[int] = None,
) -> List[Dict[str, Any]]:
    """trace_up_to: all fractions whose event date <= to-date (from the start of history)."""
    violations: List[Dict[str, Any]] = []
    sums: Dict[Tuple[int, str, str, bool], List[Fraction]] = {}
    mags: Dict[Tuple[int, str, str, bool], List[Fraction]] = {}
    for f in trace_up_to:
        event = model.events.get(f.event)
        if event is None:
            continue
        key = (event.ts.year, model.asset, event.type, f.long)
        s = sums.setdefault(key, [Fraction(0)] * 4)
        m = mags.setdefault(key, [Fraction(0)] * 4)
        for i, value in enumerate((f.amount, f.proceeds, f.cost, f.gain)):
            s[i] += value
            m[i] += abs(value)
        # gain magnitude is bounded by its operands
        m[3] += abs(f.proceeds) + abs(f.cost)
    if from_year is not None:
        sums = {k: v for k, v in sums.items() if k[0] >= from_year}
    seen = set()
    for year, asset, ttype, is_long, amount, proceeds, cost, gain in yearly:
        key = (year, asset, ttype, is_long)
        if key in seen:
            violations.append(_v("yearly.duplicate-line", key=list(map(str, key))))
            continue
        seen.add(key)
        if key not in sums:
            violations.append(_v("yearly.line-without-fractions", key=list(map(str, key))))
            continue
        exp = sums[key]
        for i, (name, got) in enumerate((("amount", amount), ("proceeds", proceeds), ("cost", cost), ("gain", gain))):
            tolerance = REL * mags[key][i]
            if abs(got - exp[i]) > tolerance:
                violations.append(_v(f"yearly.{name}", key=list(map(str, key)), got=float(got), expected=float(exp[i])))
    for key in sums:
        if key not in seen:
            violations.append(_v("yearly.missing-line", key=list(map(str, key))))
    return violations
