"""Read-back oracle for tax_report_jp.ods (C20): sheet set, transaction rows and cross-sheet formula chaining."""

from __future__ import annotations

import re
from datetime import date
from fractions import Fraction
from typing import Any, Callable, Dict, List, Optional, Tuple

from rpv.gen import EARN_TYPES, parse_ts
from rpv.model import Model
from rpv.ods_io import SheetData, read_ods
from rpv.oracle.reports import catalog, num

_CLOSING = re.compile(r"^=E(\d+)\+F(\d+)-H(\d+)$")
_REF = re.compile(r"^='(?P<sheet>[^']+)'\.(?P<col>[A-Z]+)(?P<row>\d+)$")
TX_START = 21


def _v(rule: str, **detail: Any) -> Dict[str, Any]:
    return {"rule": rule, "detail": {k: (str(v) if isinstance(v, Fraction) else v) for k, v in detail.items()}}


def _close(shown: Any, expected: Optional[Fraction]) -> bool:
    if expected is None:
        return shown in (None, "")
    f = num(shown)
    if f is None:
        return False
    return abs(f - expected) <= Fraction(1, 10**11) * max(abs(f), abs(expected)) + Fraction(1, 10**15)


class JPStats:
    def __init__(self) -> None:
        self.sheets = 0
        self.rows = 0
        self.chain_links = 0
        self.chain_to_non_adjacent_year = 0
        self.summary_lines = 0
        self.opening_zero = 0


def expected_rows(model: Model, hist: Dict[str, Any], year: int, lo: date, hi: date, transfer_label: str) -> Tuple[List[Dict[str, Any]], int]:
    """Rows the asset-year sheet must list (derived from the input), and the number of fee-less transfers of the year
    (which may be listed or omitted)."""
    rows: List[Dict[str, Any]] = []
    optional = 0
    for r in hist["rows"]:
        ts = parse_ts(r["ts"])
        if ts.year != year or not (lo <= ts.date() <= hi):
            continue
        if r["t"] == "IN":
            lot = model.lots[r["row"]]
            yen = lot.amount * lot.spot
            earn = r["type"] in EARN_TYPES
            fee = lot.fiat_fee
            rows.append({"ts": ts, "month": ts.month, "day": ts.day, "client": r["ex"], "type": r["type"], "buy": lot.amount, "buy_yen": yen, "sell": Fraction(0) if earn else None, "sell_yen": yen if earn else None, "fee": fee})
            if r.get("cfee") and Fraction(r["cfee"]) > 0:  # an explicit crypto fee of 0 is no fee (no artificial fee row)
                cfee = Fraction(r["cfee"])
                rows.append({"ts": ts, "month": ts.month, "day": ts.day, "client": r["ex"], "type": "FEE", "buy": None, "buy_yen": None, "sell": cfee, "sell_yen": Fraction(0), "fee": cfee * lot.spot})
        elif r["t"] == "OUT":
            cout, cfee, spot = Fraction(r["cout"]), Fraction(r["cfee"]), Fraction(r["spot"])
            fee = cfee * spot if cfee > 0 else (Fraction(r["ffee"]) if r.get("ffee") else Fraction(0))
            sell_yen: Any = cout * spot
            if r["type"] == "DONATE":
                sell_yen = "donation"
            rows.append({"ts": ts, "month": ts.month, "day": ts.day, "client": r["ex"], "type": r["type"], "buy": None, "buy_yen": None, "sell": cout + cfee, "sell_yen": sell_yen, "fee": fee, "donated": cout * spot})
        else:
            fee = Fraction(r["sent"]) - Fraction(r["recv"])
            if fee > 0:
                spot = Fraction(r["spot"])
                rows.append({"ts": ts, "month": ts.month, "day": ts.day, "client": transfer_label, "type": "FEE", "buy": None, "buy_yen": None, "sell": fee, "sell_yen": fee * spot, "fee": Fraction(0)})
            else:
                optional += 1
    rows.sort(key=lambda x: x["ts"])
    return rows, optional


def shown_rows(sheet: SheetData) -> List[Dict[str, Any]]:
    rows = []
    r = TX_START
    while r < len(sheet.rows):
        v = sheet.row_values(r) + [None] * 9
        if all(x in (None, "") for x in v[:4]):
            break
        if num(v[0]) is None:
            break
        rows.append({"sheet_row": r + 1, "month": v[0], "day": v[1], "client": v[2], "type": v[3], "buy": v[4], "buy_yen": v[5], "sell": v[6], "sell_yen": v[7], "fee": v[8]})
        r += 1
    return rows


def closing_row(sheet: SheetData) -> Optional[int]:
    """1-based row whose column I holds =E<r>+F<r>-H<r> (the closing crypto balance); the yen balance is one row below."""
    for r, row in enumerate(sheet.rows):
        if len(row) > 8 and row[8].formula:
            m = _CLOSING.match(row[8].formula)
            if m and m.group(1) == m.group(2) == m.group(3) == str(r + 1):
                return r + 1
    return None


def check_jp_report(path: str, language: str, hists: Dict[str, Dict[str, Any]], from_d: Optional[date], to_d: Optional[date], stats: JPStats) -> List[Dict[str, Any]]:
    out: List[Dict[str, Any]] = []
    _ = catalog(language)
    sheets = read_ods(path)
    lo = from_d or date(1970, 1, 1)
    hi = to_d or date(9999, 12, 31)
    sheet_name = lambda asset, year: _("{}_{}").format(asset, year)
    summary_name = lambda year: _("{}_Summary").format(year)
    transfer_label = _("Transfer")

    expected_sheets = set()
    years_of: Dict[str, List[int]] = {}
    for asset, hist in hists.items():
        years = sorted({parse_ts(r["ts"]).year for r in hist["rows"] if lo <= parse_ts(r["ts"]).date() <= hi})
        years_of[asset] = years
        for y in years:
            expected_sheets.add(sheet_name(asset, y))
            expected_sheets.add(summary_name(y))
    shown_sheets = {n for n in sheets if n != _("Legend")}
    if shown_sheets != expected_sheets:
        out.append(_v("jp.sheet-set", missing=sorted(expected_sheets - shown_sheets), unexpected=sorted(shown_sheets - expected_sheets)))
    names = list(sheets)
    if len(names) != len(set(names)):
        out.append(_v("jp.duplicate-sheet", names=names))

    closing: Dict[Tuple[str, int], Optional[int]] = {}
    for asset, hist in hists.items():
        model = Model(hist)
        for year in years_of[asset]:
            sheet = sheets.get(sheet_name(asset, year))
            if sheet is None:
                continue
            stats.sheets += 1
            if sheet.value(1, 7) != asset:
                out.append(_v("jp.asset-label", sheet=sheet.name, shown=sheet.value(1, 7)))
            expected, optional = expected_rows(model, hist, year, lo, hi, transfer_label)
            shown = shown_rows(sheet)
            # fee-less transfers are unspecified: drop rows that carry neither a purchase nor a sale, if any were listed
            shown_core = [s for s in shown if not (s["buy"] in (None, "") and s["sell"] in (None, ""))]
            if len(shown_core) != len(expected) or len(shown) - len(shown_core) > optional:
                out.append(_v("jp.transaction-row-count", sheet=sheet.name, shown=len(shown), expected=len(expected), optional_fee_less_transfers=optional))
            else:
                remaining = list(expected)
                matched_instants = []
                for s in shown_core:
                    stats.rows += 1
                    match = None
                    for e in remaining:
                        if (
                            num(s["month"]) == e["month"]
                            and num(s["day"]) == e["day"]
                            and s["client"] == e["client"]
                            and s["type"] == e["type"]
                            and _close(s["buy"], e["buy"])
                            and _close(s["buy_yen"], e["buy_yen"])
                            and _close(s["sell"], e["sell"])
                            and (_close(s["sell_yen"], e["sell_yen"]) if e["sell_yen"] != "donation" else _donation(s["sell_yen"], e["donated"]))
                            and _close(s["fee"], e["fee"])
                        ):
                            match = e
                            break
                    if match is None:
                        out.append(_v("jp.transaction-row-not-in-input", sheet=sheet.name, shown={k: str(v) for k, v in s.items()}, candidates=[{k: str(v) for k, v in e.items() if k != "ts"} for e in remaining[:3]]))
                        break
                    remaining.remove(match)
                    matched_instants.append(match["ts"])
                else:
                    if remaining:
                        out.append(_v("jp.transaction-row-missing", sheet=sheet.name, missing={k: str(v) for k, v in remaining[0].items()}))
                    # rows are in time order (instants of the matched input rows non-decreasing; month / day alone may
                    # legitimately go backwards when rows are written in different UTC offsets)
                    if matched_instants != sorted(matched_instants):
                        out.append(_v("jp.rows-not-in-time-order", sheet=sheet.name))
            closing[(asset, year)] = closing_row(sheet)
            if closing[(asset, year)] is None:
                out.append(_v("jp.closing-balance-cell-not-found", sheet=sheet.name))

    # ---- chaining of opening balances ---------------------------------------------------------------------
    for asset, years in years_of.items():
        for index, year in enumerate(years):
            sheet = sheets.get(sheet_name(asset, year))
            row = closing.get((asset, year))
            if sheet is None or row is None:
                continue
            opening_crypto = sheet.cell(row - 1, 4)
            opening_yen = sheet.cell(row, 4)
            if index == 0:
                for cell in (opening_crypto, opening_yen):
                    if cell.formula or num(cell.value) != 0:
                        out.append(_v("jp.first-year-opening-balance-not-zero", sheet=sheet.name, value=str(cell.value), formula=cell.formula))
                        break
                else:
                    stats.opening_zero += 1
                continue
            previous = years[index - 1]
            prev_row = closing.get((asset, previous))
            prev_name = sheet_name(asset, previous)
            for cell, offset in ((opening_crypto, 0), (opening_yen, 1)):
                m = _REF.match(cell.formula or "")
                if m is None:
                    out.append(_v("jp.opening-balance-not-a-reference", sheet=sheet.name, value=str(cell.value), formula=cell.formula, expected=f"='{prev_name}'.I{(prev_row or 0) + offset}"))
                    break
                if m.group("sheet") not in sheets:
                    out.append(_v("jp.opening-balance-refers-to-missing-sheet", sheet=sheet.name, formula=cell.formula, expected_sheet=prev_name))
                    break
                if m.group("sheet") != prev_name:
                    out.append(_v("jp.opening-balance-refers-to-wrong-year", sheet=sheet.name, formula=cell.formula, expected_sheet=prev_name))
                    break
                if prev_row is not None and (m.group("col") != "I" or int(m.group("row")) != prev_row + offset):
                    out.append(_v("jp.opening-balance-refers-to-wrong-cell", sheet=sheet.name, formula=cell.formula, expected=f"='{prev_name}'.I{prev_row + offset}"))
                    break
            else:
                stats.chain_links += 1
                if previous != year - 1:
                    stats.chain_to_non_adjacent_year += 1

    # ---- yearly summary sheets ----------------------------------------------------------------------------
    all_years = sorted({y for ys in years_of.values() for y in ys})
    for year in all_years:
        sheet = sheets.get(summary_name(year))
        if sheet is None:
            continue
        lines = []
        r = 7
        while r < len(sheet.rows):
            v = sheet.row_values(r)
            if not v or v[0] in (None, ""):
                break
            if any(sheet.cell(r, c).formula and sheet.cell(r, c).formula.startswith("=SUM(") for c in range(1, 7)):
                break
            lines.append((r, v[0]))
            r += 1
        expected_assets = sorted(a for a, ys in years_of.items() if year in ys)
        if sorted(a for _, a in lines) != expected_assets:
            out.append(_v("jp.summary-lines", sheet=sheet.name, shown=[a for _, a in lines], expected=expected_assets))
            continue
        for r, asset in lines:
            stats.summary_lines += 1
            target = sheet_name(asset, year)
            row = closing.get((asset, year))
            expected_refs = {3: ("G", (row or 0) + 1), 4: ("I", row or 0), 5: ("I", (row or 0) + 1)}
            for col in (3, 4, 5, 6):
                m = _REF.match(sheet.cell(r, col).formula or "")
                if m is None or m.group("sheet") != target:
                    out.append(_v("jp.summary-line-does-not-point-at-asset-year", sheet=sheet.name, asset=asset, formula=sheet.cell(r, col).formula, expected_sheet=target))
                    break
                if col in expected_refs and row is not None and (m.group("col"), int(m.group("row"))) != expected_refs[col]:
                    out.append(_v("jp.summary-line-points-at-wrong-cell", sheet=sheet.name, asset=asset, formula=sheet.cell(r, col).formula, expected=f"{expected_refs[col][0]}{expected_refs[col][1]}"))
                    break
    return out


def _donation(shown: Any, donated: Fraction) -> bool:
    """A donation's sale value is shown as the text '0 (￥<amount>)'."""
    if isinstance(shown, str):
        m = re.match(r"^0 \(￥([\d,]+\.\d\d)\)$", shown)
        if m:
            value = Fraction(m.group(1).replace(",", ""))
            return abs(value - donated) <= Fraction(1, 100) + abs(donated) * Fraction(1, 10**12)
    return False
