"""Read-back of generated reports: decodes the tables of rp2_full_report.ods, tax_report_us/ie.ods, open_positions.ods and
tax_report_jp.ods into plain records (values and formula text), using RP2's own gettext catalogue for sheet names, table
titles and LONG/SHORT/YES/NO words of the run's language.
"""

from __future__ import annotations

import gettext
import os
import re
from decimal import Decimal, InvalidOperation
from fractions import Fraction
from typing import Any, Callable, Dict, List, Optional, Tuple

from rpv.common import rp2_src
from rpv.ods_io import Cell, SheetData, read_ods

_LINK = re.compile(r'^=HYPERLINK\("#(?P<sheet>.+)\.a(?P<r1>\d+):z(?P<r2>\d+)";\s*(?P<payload>.*)\)$', re.S)


def catalog(language: str) -> Callable[[str], str]:
    locales = os.path.join(rp2_src(), "rp2", "locales")
    try:
        return gettext.translation("messages", localedir=locales, languages=[language]).gettext
    except FileNotFoundError:
        return lambda s: s


class Link:
    __slots__ = ("sheet", "row", "payload", "raw")

    def __init__(self, sheet: str, row: int, payload: Any, raw: str) -> None:
        self.sheet = sheet
        self.row = row  # 1-based
        self.payload = payload
        self.raw = raw


def parse_payload(text: str) -> Any:
    text = text.strip()
    if len(text) >= 2 and text[0] == '"' and text[-1] == '"':
        return text[1:-1]
    try:
        return Decimal(text)
    except InvalidOperation:
        return text


def parse_link(cell: Cell) -> Optional[Link]:
    if not cell.formula:
        return None
    match = _LINK.match(cell.formula)
    if not match or match.group("r1") != match.group("r2"):
        return None
    return Link(match.group("sheet"), int(match.group("r1")), parse_payload(match.group("payload")), cell.formula)


def cell_payload(cell: Cell) -> Any:
    """The value a cell shows: the hyperlink payload when it is a link, the plain value otherwise."""
    link = parse_link(cell)
    if link is not None:
        return link.payload
    return cell.value


def num(value: Any) -> Optional[Fraction]:
    if value is None or value == "":
        return None
    if isinstance(value, Fraction):
        return value
    if isinstance(value, Decimal):
        return Fraction(value)
    if isinstance(value, (int, float)):
        return Fraction(value)
    try:
        return Fraction(Decimal(str(value)))
    except (InvalidOperation, ValueError):
        return None


def snap(value: Any, decimals: int = 11) -> Optional[Fraction]:
    """Nearest value with `decimals` decimals (recovers an exact <= 11-decimal amount from its double)."""
    f = num(value)
    if f is None:
        return None
    scale = 10**decimals
    return Fraction(round(f * scale), scale)


# ---------------------------------------------------------------------------------------------------------
# rp2_full_report.ods
# ---------------------------------------------------------------------------------------------------------


class Table:
    def __init__(self, title_row: int, rows: List[int]) -> None:
        self.title_row = title_row
        self.rows = rows  # 0-based sheet row indexes of the data rows

    @property
    def after(self) -> int:
        return (self.rows[-1] + 1) if self.rows else self.title_row + 3


def _data_rows(sheet: SheetData, title_row: int, key_column: int, stop_titles: List[str]) -> List[int]:
    rows = []
    r = title_row + 3
    while r < len(sheet.rows):
        if sheet.value(r, 0) in stop_titles and sheet.value(r, 0) not in (None, ""):
            break
        cell = sheet.cell(r, key_column)
        if (cell.value is None or cell.value == "") and not cell.formula:
            break
        rows.append(r)
        r += 1
    return rows


class FullReport:
    """Decoded rp2_full_report.ods."""

    def __init__(self, path: str, language: str = "en") -> None:
        self.path = path
        self._ = catalog(language)
        self.sheets = read_ods(path)
        self.problems: List[str] = []

    # ---- names ---------------------------------------------------------------------------------------
    def in_out_name(self, asset: str) -> str:
        return self._("{} In-Out").format(asset)

    def tax_name(self, asset: str) -> str:
        return self._("{} Tax").format(asset)

    def summary_name(self) -> str:
        return self._("Summary")

    def legend_name(self) -> str:
        return self._("Legend")

    def assets(self) -> List[str]:
        suffix = self._("{} Tax").format("\0").split("\0")
        result = []
        for name in self.sheets:
            if name.startswith(suffix[0]) and name.endswith(suffix[1]) and name not in (self.summary_name(), self.legend_name()):
                candidate = name[len(suffix[0]) : len(name) - len(suffix[1])]
                if self.in_out_name(candidate) in self.sheets:
                    result.append(candidate)
        return result

    # ---- In-Out sheet --------------------------------------------------------------------------------
    def flow_tables(self, asset: str) -> Dict[str, Table]:
        sheet = self.sheets[self.in_out_name(asset)]
        titles = {"IN": self._("In-Flow Detail"), "OUT": self._("Out-Flow Detail"), "INTRA": self._("Intra-Flow Detail")}
        result = {}
        for table, title in titles.items():
            title_row = sheet.find_row(title)
            if title_row is None:
                self.problems.append(f"{asset}: table '{title}' not found")
                continue
            result[table] = Table(title_row, _data_rows(sheet, title_row, 1, list(titles.values())))
        return result

    def in_rows(self, asset: str) -> List[Dict[str, Any]]:
        sheet = self.sheets[self.in_out_name(asset)]
        table = self.flow_tables(asset).get("IN")
        out = []
        for r in table.rows if table else []:
            v = sheet.row_values(r)
            out.append(
                {
                    "sheet_row": r + 1,
                    "sold_pct": v[0],
                    "ts": v[1],
                    "asset": v[2],
                    "ex": v[3],
                    "ho": v[4],
                    "type": v[5],
                    "spot": v[6],
                    "cin": v[7],
                    "running": v[8],
                    "ffee": v[9],
                    "fin_nf": v[10],
                    "fin_wf": v[11],
                    "taxable": v[12],
                    "uid": v[14],
                    "notes": v[15],
                }
            )
        return out

    def out_rows(self, asset: str) -> List[Dict[str, Any]]:
        sheet = self.sheets[self.in_out_name(asset)]
        table = self.flow_tables(asset).get("OUT")
        out = []
        for r in table.rows if table else []:
            v = sheet.row_values(r)
            out.append(
                {
                    "sheet_row": r + 1,
                    "ts": v[1],
                    "asset": v[2],
                    "ex": v[3],
                    "ho": v[4],
                    "type": v[5],
                    "spot": v[6],
                    "cout": v[7],
                    "cfee": v[8],
                    "running": v[9],
                    "fee_running": v[10],
                    "fout_nf": v[11],
                    "ffee": v[12],
                    "taxable": v[13],
                    "uid": v[14],
                    "notes": v[15],
                }
            )
        return out

    def intra_rows(self, asset: str) -> List[Dict[str, Any]]:
        sheet = self.sheets[self.in_out_name(asset)]
        table = self.flow_tables(asset).get("INTRA")
        out = []
        for r in table.rows if table else []:
            v = sheet.row_values(r)
            out.append(
                {
                    "sheet_row": r + 1,
                    "ts": v[1],
                    "asset": v[2],
                    "fex": v[3],
                    "fho": v[4],
                    "tex": v[5],
                    "tho": v[6],
                    "spot": v[7],
                    "sent": v[8],
                    "recv": v[9],
                    "fee": v[10],
                    "fee_running": v[11],
                    "ffee": v[12],
                    "taxable": v[13],
                    "uid": v[14],
                    "notes": v[15],
                }
            )
        return out

    # ---- Tax sheet -----------------------------------------------------------------------------------
    def tax_tables(self, asset: str) -> Dict[str, Table]:
        sheet = self.sheets[self.tax_name(asset)]
        titles = {
            "summary": self._("Gain / Loss Summary"),
            "balances": self._("Account Balances"),
            "average": self._("Average Price"),
            "detail": self._("Gain / Loss Detail"),
        }
        result = {}
        start = 0
        for key in ("summary", "balances", "average", "detail"):
            title_row = sheet.find_row(titles[key], start=start)
            if title_row is None:
                self.problems.append(f"{asset}: table '{titles[key]}' not found")
                continue
            key_column = 0
            result[key] = Table(title_row, _data_rows(sheet, title_row, key_column, list(titles.values())))
            start = title_row + 1
        return result

    def yearly_lines(self, asset: str) -> List[Dict[str, Any]]:
        sheet = self.sheets[self.tax_name(asset)]
        table = self.tax_tables(asset).get("summary")
        out = []
        for r in table.rows if table else []:
            v = sheet.row_values(r)
            out.append({"sheet_row": r + 1, "year": v[0], "asset": v[1], "gain": v[2], "kind": v[3], "type": v[4], "amount": v[5], "proceeds": v[6], "cost": v[7]})
        return out

    def balances(self, asset: str) -> Tuple[List[Dict[str, Any]], List[Dict[str, Any]]]:
        sheet = self.sheets[self.tax_name(asset)]
        table = self.tax_tables(asset).get("balances")
        lines, totals = [], []
        total_word = self._("Total")
        for r in table.rows if table else []:
            v = sheet.row_values(r)
            if v[0] == total_word and v[2] in ("", None):
                totals.append({"holder": v[1], "final": v[6]})
            else:
                lines.append({"ex": v[0], "ho": v[1], "asset": v[2], "acquired": v[3], "sent": v[4], "received": v[5], "final": v[6]})
        return lines, totals

    def average_price(self, asset: str) -> Any:
        sheet = self.sheets[self.tax_name(asset)]
        table = self.tax_tables(asset).get("average")
        if not table:
            return None
        return sheet.value(table.title_row + 3, 0)

    def detail_rows(self, asset: str) -> List[Dict[str, Any]]:
        sheet = self.sheets[self.tax_name(asset)]
        table = self.tax_tables(asset).get("detail")
        out = []
        for r in table.rows if table else []:
            cells = [sheet.cell(r, c) for c in range(20)]
            p = [cell_payload(c) for c in cells]
            out.append(
                {
                    "sheet_row": r + 1,
                    "amount": p[0],
                    "asset": p[1],
                    "running": p[2],
                    "gain": p[3],
                    "kind": p[4],
                    "event_ts": p[5],
                    "event_dir_type": p[6],
                    "event_pct": p[7],
                    "proceeds": p[8],
                    "event_spot": p[9],
                    "event_uid": p[10],
                    "event_note": p[11],
                    "lot_ts": p[12],
                    "lot_pct": p[13],
                    "lot_fiat": p[14],
                    "lot_fee": p[15],
                    "cost": p[16],
                    "lot_spot": p[17],
                    "lot_uid": p[18],
                    "lot_note": p[19],
                    "event_links": [parse_link(c) for c in cells[5:12]],
                    "lot_links": [parse_link(c) for c in cells[12:20]],
                    "event_cells": cells[5:12],
                    "lot_cells": cells[12:20],
                }
            )
        return out

    # ---- Summary and Legend --------------------------------------------------------------------------
    def summary_lines(self) -> List[Dict[str, Any]]:
        sheet = self.sheets[self.summary_name()]
        out = []
        r = 3
        while r < len(sheet.rows):
            cells = [sheet.cell(r, c) for c in range(8)]
            if all((c.value in (None, "")) and not c.formula for c in cells):
                break
            p = [cell_payload(c) for c in cells]
            out.append({"sheet_row": r + 1, "year": p[0], "asset": p[1], "gain": p[2], "kind": p[3], "type": p[4], "amount": p[5], "proceeds": p[6], "cost": p[7], "links": [parse_link(c) for c in cells]})
            r += 1
        return out

    def legend(self) -> Dict[str, Any]:
        sheet = self.sheets[self.legend_name()]
        row = sheet.find_row(self._("Accounting Method"))
        if row is None:
            return {}
        return {"method": sheet.value(row, 1), "from": sheet.value(row + 1, 1), "to": sheet.value(row + 2, 1)}


def legend_of(path: str, language: str = "en") -> Dict[str, Any]:
    _ = catalog(language)
    sheets = read_ods(path)
    sheet = sheets.get(_("Legend"))
    if sheet is None:
        return {}
    row = sheet.find_row(_("Accounting Method"))
    if row is None:
        return {}
    return {"method": sheet.value(row, 1), "from": sheet.value(row + 1, 1), "to": sheet.value(row + 2, 1)}


def split_dir_type(text: Any) -> Tuple[str, str]:
    if not isinstance(text, str) or " / " not in text:
        return "", ""
    direction, ttype = text.split(" / ", 1)
    return direction.strip(), ttype.strip()


# ---------------------------------------------------------------------------------------------------------
# tax_report_us.ods / tax_report_ie.ods
# ---------------------------------------------------------------------------------------------------------

TAX_SHEET_OF_TYPE = {
    "AIRDROP": "Airdrops",
    "SELL": "Capital Gains",
    "DONATE": "Donations",
    "GIFT": "Gifts",
    "HARDFORK": "Hard Forks",
    "INCOME": "Income",
    "INTEREST": "Interest",
    "FEE": "Investment Expenses",
    "LOST": "Investment Expenses",
    "MOVE": "Investment Expenses",
    "MINING": "Mining",
    "STAKING": "Staking",
    "WAGES": "Wages",
}
TAX_HEADER_ROWS = 7


def tax_report_rows(path: str) -> Dict[str, List[Dict[str, Any]]]:
    sheets = read_ods(path)
    result: Dict[str, List[Dict[str, Any]]] = {}
    for name, sheet in sheets.items():
        if name == "Legend":
            continue
        rows = []
        r = TAX_HEADER_ROWS
        blank_seen = 0
        while r < len(sheet.rows):
            v = sheet.row_values(r) + [None] * 16
            if all(x in (None, "") for x in v[:16]):
                blank_seen += 1
                if blank_seen > 3:
                    break
                r += 1
                continue
            if blank_seen:
                # a filled row after a gap: rows must be contiguous
                rows.append({"sheet_row": r + 1, "after_gap": True})
            rows.append(
                {
                    "sheet_row": r + 1,
                    "amount": v[0],
                    "asset": v[1],
                    "date_acquired": v[2],
                    "date_sold": v[3],
                    "proceeds": v[4],
                    "cost": v[5],
                    "gain": v[8],
                    "dir_type": v[9],
                    "lot_note": v[10],
                    "lot_uid": v[11],
                    "event_note": v[12],
                    "event_uid": v[13],
                    "kind": v[14],
                    "event_ts": v[15],
                }
            )
            r += 1
        result[name] = rows
    return result


# ---------------------------------------------------------------------------------------------------------
# open_positions.ods
# ---------------------------------------------------------------------------------------------------------


def open_positions(path: str, language: str = "en") -> Dict[str, Any]:
    _ = catalog(language)
    sheets = read_ods(path)
    result: Dict[str, Any] = {"asset": [], "asset_exchange": [], "input": [], "totals": []}
    sheet = sheets.get(_("Asset"))
    total, grand = _("Total"), _("Grand Total")
    if sheet is not None:
        for r in range(3, len(sheet.rows)):
            v = sheet.row_values(r) + [None] * 12
            if v[0] in (None, ""):
                continue
            if v[0] in (total, grand):
                result["totals"].append({"sheet": "asset", "label": v[0], "holder": v[1], "cost_formula": sheet.cell(r, 4).formula})
                continue
            result["asset"].append({"sheet_row": r + 1, "asset": v[0], "holder": v[1], "balance": v[2], "unit_cost": v[3], "cost": v[4], "weight": v[5]})
    sheet = sheets.get(_("Asset - Exchange"))
    if sheet is not None:
        for r in range(3, len(sheet.rows)):
            v = sheet.row_values(r) + [None] * 13
            if v[0] in (None, ""):
                continue
            if v[0] in (total, grand):
                result["totals"].append({"sheet": "asset_exchange", "label": v[0], "holder": v[1], "cost_formula": sheet.cell(r, 5).formula})
                continue
            result["asset_exchange"].append({"sheet_row": r + 1, "asset": v[0], "holder": v[1], "exchange": v[2], "balance": v[3], "unit_cost": v[4], "cost": v[5], "weight": v[6]})
    sheet = sheets.get(_("Input"))
    if sheet is not None:
        for r in range(3, len(sheet.rows)):
            v = sheet.row_values(r) + [None] * 2
            if v[0] not in (None, ""):
                result["input"].append(v[0])
    return result
