"""Read-back monitors for rp2_full_report.ods: every cell of the written file against the input rows and against the
ComputedData the same tree computes from the same files with the same options (C13), and every hyperlink against the
row it points to (C19)."""

from __future__ import annotations

from datetime import date, datetime, timezone
from decimal import Decimal
from fractions import Fraction
from typing import Any, Dict, List, Optional, Tuple

from rpv.cli_core import english_type, parse_report_ts
from rpv.drive_inproc import frac
from rpv.model import Model
from rpv.oracle.reports import FullReport, Link, num, parse_link, snap, split_dir_type

REL12 = Fraction(1, 10**12)


def _v(rule: str, **detail: Any) -> Dict[str, Any]:
    return {"rule": rule, "detail": {k: (str(v) if isinstance(v, (Fraction, Decimal, datetime, date)) else v) for k, v in detail.items()}}


def close(shown: Any, expected: Fraction, rel: Fraction = REL12) -> bool:
    f = num(shown)
    if f is None:
        return False
    return abs(f - expected) <= rel * max(abs(f), abs(expected)) + Fraction(1, 10**18)


def _ts_equal(shown: Any, expected: datetime) -> bool:
    parsed = parse_report_ts(shown)
    return parsed is not None and parsed == expected and parsed.utcoffset() == expected.utcoffset()


class Stats:
    def __init__(self) -> None:
        self.cells = 0
        self.transaction_rows = 0
        self.detail_rows = 0
        self.links = 0
        self.plain_hidden = 0
        self.summary_links = 0
        self.summary_plain = 0


def check_full_report(
    report: FullReport,
    hists: Dict[str, Dict[str, Any]],
    computed: Dict[str, Any],
    computed_to_only: Dict[str, Any],
    schedule: Dict[int, str],
    from_d: Optional[date],
    to_d: Optional[date],
    stats: Stats,
) -> List[Dict[str, Any]]:
    out: List[Dict[str, Any]] = []
    lo = from_d or date(1970, 1, 1)
    hi = to_d or date(9999, 12, 31)
    _ = report._
    yes, no = _("YES"), _("NO")
    long_word, short_word = _("LONG"), _("SHORT")

    expected_assets = sorted(hists)
    if sorted(report.assets()) != expected_assets:
        out.append(_v("fullreport.asset-sheets", got=sorted(report.assets()), expected=expected_assets))
        return out

    all_summary_expected: List[Tuple[Any, ...]] = []
    for asset in expected_assets:
        hist = hists[asset]
        model = Model(hist)
        cd = computed[asset]
        cd_to = computed_to_only[asset]
        rows_by_uid_table = {(r["uid"], r["t"]): r for r in hist["rows"]}

        def in_window(ts: datetime) -> bool:
            return lo <= ts.date() <= hi

        # ---- transaction tables -----------------------------------------------------------------------
        tables = report.flow_tables(asset)
        sheet = report.sheets[report.in_out_name(asset)]
        for table_name, shown_rows, entry_set in (
            ("IN", report.in_rows(asset), cd.in_transaction_set),
            ("OUT", report.out_rows(asset), cd.out_transaction_set),
            ("INTRA", report.intra_rows(asset), cd.intra_transaction_set),
        ):
            table = tables.get(table_name)
            if table is None:
                out.append(_v("fullreport.table-missing", asset=asset, table=table_name))
                continue
            # exactly the window's rows, once each
            if table_name == "OUT":
                expected_uids = sorted([r["uid"] for r in hist["rows"] if r["t"] == "OUT" and in_window(_ts(r))] + [model.events[a].uid for a in model.artificial if in_window(model.events[a].ts)])
            else:
                expected_uids = sorted(r["uid"] for r in hist["rows"] if r["t"] == table_name and in_window(_ts(r)))
            shown_uids = sorted(str(r["uid"]) for r in shown_rows)
            if shown_uids != expected_uids:
                out.append(_v("fullreport.transactions-listed", asset=asset, table=table_name, shown=shown_uids, expected=expected_uids))
                continue
            # the row after the table is blank (no truncated / extra row)
            if not sheet.row_is_blank(table.after):
                out.append(_v("fullreport.row-after-table-not-blank", asset=asset, table=table_name, sheet_row=table.after + 1))
            # time-sorted, fields equal to the computed transactions (same order) and to the input
            transactions = list(entry_set)
            previous: Optional[datetime] = None
            previous_running: Optional[Fraction] = None
            for shown, t in zip(shown_rows, transactions):
                stats.transaction_rows += 1
                ts = parse_report_ts(shown["ts"])
                if ts is None or not _ts_equal(shown["ts"], t.timestamp):
                    out.append(_v("fullreport.transaction-timestamp", asset=asset, table=table_name, shown=str(shown["ts"]), computed=t.timestamp))
                    continue
                if previous is not None and ts < previous:
                    out.append(_v("fullreport.transactions-not-time-sorted", asset=asset, table=table_name, sheet_row=shown["sheet_row"]))
                previous = ts
                if str(shown["uid"]) != t.unique_id:
                    out.append(_v("fullreport.transaction-order-differs-from-computed", asset=asset, table=table_name, shown=str(shown["uid"]), computed=t.unique_id))
                    continue
                src = rows_by_uid_table.get((t.unique_id, table_name))
                if table_name == "IN":
                    lot = model.lots[src["row"]]
                    expect = {
                        "asset": asset,
                        "ex": src["ex"],
                        "ho": src["ho"],
                        "type": _(src["type"].lower()).upper(),
                        "taxable": yes if lot.earn else no,
                    }
                    numbers = {"spot": lot.spot, "cin": lot.amount, "ffee": lot.fiat_fee, "fin_nf": lot.fiat_in_no_fee, "fin_wf": lot.fiat_in_with_fee}
                    running = _running(model, lot.utc, lot.amount, "lots")
                    sold = shown["sold_pct"]
                    expected_sold = frac(cd.get_in_lot_sold_percentage(t))
                    if sold in (None, ""):
                        # RP2 leaves the cell blank when the percentage is zero at its 13-decimal resolution
                        if expected_sold >= Fraction(5, 10**14):
                            out.append(_v("fullreport.sold-percentage-blank", asset=asset, lot=t.unique_id, computed=expected_sold))
                    elif not close(sold, expected_sold, Fraction(1, 10**9)):
                        out.append(_v("fullreport.sold-percentage", asset=asset, lot=t.unique_id, shown=sold, computed=expected_sold))
                elif table_name == "OUT":
                    if src is None:
                        # artificial fee-only transaction of an IN row with a crypto fee
                        event = next(model.events[a] for a in model.artificial if model.events[a].uid == t.unique_id)
                        inrow = next(r for r in hist["rows"] if r["t"] == "IN" and r["uid"] == t.unique_id)
                        expect = {"asset": asset, "ex": inrow["ex"], "ho": inrow["ho"], "type": _("fee").upper(), "taxable": yes}
                        numbers = {"spot": event.spot, "cout": Fraction(0), "cfee": event.amount, "fout_nf": Fraction(0), "ffee": event.taxable_fiat}
                        running = None
                    else:
                        event = model.events[src["row"]]
                        cfee = Fraction(src["cfee"])
                        expect = {"asset": asset, "ex": src["ex"], "ho": src["ho"], "type": _(src["type"].lower()).upper(), "taxable": yes}
                        fiat_out = Fraction(src["fout_nf"]) if src.get("fout_nf") else Fraction(src["cout"]) * event.spot
                        fiat_fee = Fraction(src["ffee"]) if src.get("ffee") else cfee * event.spot
                        numbers = {"spot": event.spot, "cout": Fraction(src["cout"]), "cfee": cfee, "fout_nf": fiat_out, "ffee": fiat_fee}
                        running = None
                    # running sums over all out-transactions of the history (artificial ones included) in computed order
                    shown_running = num(shown["running"])
                    expected_running = frac(cd.get_crypto_out_running_sum(t))
                    if not close(shown["running"], expected_running, Fraction(1, 10**12)):
                        out.append(_v("fullreport.running-sum", asset=asset, table="OUT", shown=shown["running"], computed=expected_running))
                    if not close(shown["fee_running"], frac(cd.get_crypto_out_fee_running_sum(t)), Fraction(1, 10**12)):
                        out.append(_v("fullreport.fee-running-sum", asset=asset, table="OUT", shown=shown["fee_running"]))
                    lo_b, hi_b = _running_bounds(model, event.utc, numbers["cout"], "out")
                    if shown_running is not None and not (lo_b - Fraction(1, 10**9) <= shown_running <= hi_b + Fraction(1, 10**9)):
                        out.append(_v("fullreport.running-sum-vs-input", asset=asset, table="OUT", shown=shown["running"], bounds=[str(lo_b), str(hi_b)]))
                else:
                    event_fee = Fraction(src["sent"]) - Fraction(src["recv"])
                    spot = Fraction(src["spot"]) if src.get("spot") not in (None, "") else Fraction(0)
                    taxable = src["row"] in model.events and src["row"] not in model.tiny_fee_transfers
                    expect = {"asset": asset, "fex": src["fex"], "fho": src["fho"], "tex": src["tex"], "tho": src["tho"], "taxable": yes if taxable else no}
                    numbers = {"spot": spot, "sent": Fraction(src["sent"]), "recv": Fraction(src["recv"]), "fee": event_fee, "ffee": event_fee * spot}
                    running = None
                    if not close(shown["fee_running"], frac(cd.get_crypto_intra_fee_running_sum(t)), Fraction(1, 10**12)):
                        out.append(_v("fullreport.fee-running-sum", asset=asset, table="INTRA", shown=shown["fee_running"]))
                for key, value in expect.items():
                    stats.cells += 1
                    if key == "type" and shown[key] == english_type(report, value):
                        continue  # type words may be shown in English or in the report language
                    if shown[key] != value:
                        out.append(_v("fullreport.transaction-field", asset=asset, table=table_name, uid=t.unique_id, field=key, shown=shown[key], expected=value))
                for key, value in numbers.items():
                    stats.cells += 1
                    if not close(shown[key], value):
                        out.append(_v("fullreport.transaction-number", asset=asset, table=table_name, uid=t.unique_id, field=key, shown=shown[key], expected=value))
                if table_name == "IN":
                    stats.cells += 1
                    shown_running = num(shown["running"])
                    lo_b, hi_b = _running_bounds(model, model.lots[src["row"]].utc, model.lots[src["row"]].amount, "lots")
                    if shown_running is None or not (lo_b - Fraction(1, 10**9) <= shown_running <= hi_b + Fraction(1, 10**9)):
                        out.append(_v("fullreport.running-sum-vs-input", asset=asset, table="IN", shown=shown["running"], bounds=[str(lo_b), str(hi_b)]))
                    if previous_running is not None and shown_running is not None and shown_running <= previous_running:
                        out.append(_v("fullreport.running-sum-not-increasing", asset=asset, table="IN"))
                    previous_running = shown_running
                    if not close(shown["running"], frac(cd.get_crypto_in_running_sum(t)), Fraction(1, 10**12)):
                        out.append(_v("fullreport.running-sum", asset=asset, table="IN", shown=shown["running"]))

        # ---- gain / loss detail -----------------------------------------------------------------------
        tax_tables = report.tax_tables(asset)
        tax_sheet = report.sheets[report.tax_name(asset)]
        detail = report.detail_rows(asset)
        fractions = list(cd.gain_loss_set)
        if len(detail) != len(fractions):
            out.append(_v("fullreport.detail-row-count", asset=asset, shown=len(detail), computed=len(fractions)))
        elif "detail" in tax_tables and not tax_sheet.row_is_blank(tax_tables["detail"].after):
            out.append(_v("fullreport.row-after-table-not-blank", asset=asset, table="detail", sheet_row=tax_tables["detail"].after + 1))
        # independent k/n count over all fractions up to the to-date (from the beginning of the history)
        all_fractions = list(cd_to.gain_loss_set)
        event_count: Dict[Any, int] = {}
        lot_count: Dict[Any, int] = {}
        position: Dict[Tuple[Any, Any], Tuple[int, Optional[int]]] = {}
        for g in all_fractions:
            ek = (g.taxable_event.unique_id, type(g.taxable_event).__name__)
            event_count[ek] = event_count.get(ek, 0) + 1
            lk = g.acquired_lot.unique_id if g.acquired_lot is not None else None
            k_lot = None
            if lk is not None:
                lot_count[lk] = lot_count.get(lk, 0) + 1
                k_lot = lot_count[lk]
            position[(ek, lk)] = (event_count[ek], k_lot)
        seen_pairs = set()
        for d, g in zip(detail, fractions):
            stats.detail_rows += 1
            event = g.taxable_event
            lot = g.acquired_lot
            direction = "IN" if type(event).__name__ == "InTransaction" else ("OUT" if type(event).__name__ == "OutTransaction" else "INTRA")
            pair = (event.unique_id, direction, lot.unique_id if lot is not None else None)
            if pair in seen_pairs:
                out.append(_v("fullreport.fraction-listed-twice", asset=asset, pair=list(map(str, pair))))
            seen_pairs.add(pair)
            expected_text = {
                "asset": asset,
                "kind": long_word if g.is_long_term_capital_gains() else short_word,
                "event_dir_type": f"{direction} / {event.transaction_type.value.upper()}",
                "event_uid": event.unique_id,
            }
            for key, value in expected_text.items():
                stats.cells += 1
                if key == "event_dir_type":
                    shown_dir, shown_type = split_dir_type(d[key])
                    if f"{shown_dir} / {english_type(report, shown_type)}" == value:
                        continue
                if str(d[key] if d[key] is not None else "") != str(value):
                    out.append(_v("fullreport.detail-field", asset=asset, field=key, shown=d[key], computed=value, sheet_row=d["sheet_row"]))
            if not _ts_equal(d["event_ts"], event.timestamp):
                out.append(_v("fullreport.detail-field", asset=asset, field="event_ts", shown=str(d["event_ts"]), computed=event.timestamp))
            expected_numbers = {
                "amount": frac(g.crypto_amount),
                "running": frac(cd.get_crypto_gain_loss_running_sum(g)),
                "gain": frac(g.fiat_gain),
                "event_pct": frac(g.taxable_event_fraction_percentage),
                "proceeds": frac(g.taxable_event_fiat_amount_with_fee_fraction),
                "event_spot": frac(event.spot_price),
            }
            if lot is not None:
                expected_numbers.update(
                    {
                        "lot_pct": frac(g.acquired_lot_fraction_percentage),
                        "lot_fiat": frac(g.acquired_lot_fiat_amount_with_fee_fraction),
                        "lot_fee": frac(lot.fiat_fee) * frac(g.acquired_lot_fraction_percentage),
                        "cost": frac(g.fiat_cost_basis),
                        "lot_spot": frac(lot.spot_price),
                    }
                )
                if str(d["lot_uid"]) != lot.unique_id:
                    out.append(_v("fullreport.detail-field", asset=asset, field="lot_uid", shown=d["lot_uid"], computed=lot.unique_id))
                if not _ts_equal(d["lot_ts"], lot.timestamp):
                    out.append(_v("fullreport.detail-field", asset=asset, field="lot_ts", shown=str(d["lot_ts"]), computed=lot.timestamp))
            else:
                for key in ("lot_ts", "lot_pct", "lot_fiat", "lot_fee", "cost", "lot_spot", "lot_uid"):
                    if d[key] not in (None, ""):
                        out.append(_v("fullreport.income-row-has-lot-cells", asset=asset, field=key, shown=d[key]))
            for key, value in expected_numbers.items():
                stats.cells += 1
                if not close(d[key], value):
                    out.append(_v("fullreport.detail-number", asset=asset, field=key, shown=str(d[key]), computed=value, event=event.unique_id, sheet_row=d["sheet_row"]))
            # k/n labels against the independent count
            ek = (event.unique_id, type(event).__name__)
            lk = lot.unique_id if lot is not None else None
            k_event, k_lot = position.get((ek, lk), (None, None))
            exp_event_note = f"{k_event}/{event_count.get(ek)}: {g.crypto_amount:.8f} of {event.crypto_balance_change:.8f} {asset}"
            stats.cells += 1
            if d["event_note"] != exp_event_note:
                out.append(_v("fullreport.event-fraction-label", asset=asset, shown=d["event_note"], expected=exp_event_note))
            if lot is not None:
                exp_lot_note = f"{k_lot}/{lot_count.get(lk)}: {g.crypto_amount:.8f} of {lot.crypto_balance_change:.8f} {asset}"
                stats.cells += 1
                if d["lot_note"] != exp_lot_note:
                    out.append(_v("fullreport.lot-fraction-label", asset=asset, shown=d["lot_note"], expected=exp_lot_note))

        # ---- balances, average price, yearly summary --------------------------------------------------
        lines, totals = report.balances(asset)
        expected_balances = model.balances(to_d)
        computed_balances = {(b.exchange, b.holder): b for b in cd.balance_set}
        if sorted((l["ex"], l["ho"]) for l in lines) != sorted(computed_balances):
            out.append(_v("fullreport.balance-lines", asset=asset, shown=sorted((l["ex"], l["ho"]) for l in lines), computed=sorted(computed_balances)))
        else:
            for l in lines:
                b = computed_balances[(l["ex"], l["ho"])]
                for key, value in (("acquired", b.acquired_balance), ("sent", b.sent_balance), ("received", b.received_balance), ("final", b.final_balance)):
                    stats.cells += 1
                    if not close(l[key], frac(value)):
                        out.append(_v("fullreport.balance-number", asset=asset, account=[l["ex"], l["ho"]], field=key, shown=l[key], computed=frac(value)))
            # the same figures recomputed from the spreadsheet rows (independent of the tree's own balance replay), where the
            # to-date cut is unambiguous; and the row identity final = acquired + received - sent
            from rpv.checks.inproc_util import clean_cut

            unambiguous = to_d is None or clean_cut({"rows": model.rows}, to_d)
            for l in lines:
                expected_line = expected_balances.get((l["ex"], l["ho"]))
                values = {key: snap(l[key]) for key in ("acquired", "sent", "received", "final")}
                if None not in values.values() and values["final"] != values["acquired"] + values["received"] - values["sent"]:
                    out.append(_v("fullreport.balance-row-identity", asset=asset, account=[l["ex"], l["ho"]], shown={k: str(v) for k, v in values.items()}))
                if unambiguous and expected_line is not None:
                    for key in ("acquired", "sent", "received", "final"):
                        stats.cells += 1
                        if values[key] != expected_line[key]:
                            out.append(_v("fullreport.balance-vs-input-rows", asset=asset, account=[l["ex"], l["ho"]], field=key, shown=str(l[key]), expected=str(expected_line[key])))
                            break
            holders: Dict[str, Fraction] = {}
            for b in computed_balances.values():
                holders[b.holder] = holders.get(b.holder, Fraction(0)) + frac(b.final_balance)
            shown_totals = {t["holder"]: t["final"] for t in totals}
            if sorted(shown_totals) != sorted(holders) or any(not close(shown_totals[h], v) for h, v in holders.items()):
                out.append(_v("fullreport.holder-totals", asset=asset, shown={k: str(v) for k, v in shown_totals.items()}, expected={k: str(v) for k, v in holders.items()}))
        # average price = sum(cost with fee) / sum(amount) of lots up to the to-date (from the input)
        lots_upto = [l for l in model.lots.values() if to_d is None or l.ts.date() <= to_d]
        stats.cells += 1
        if lots_upto:
            expected_avg = sum((l.fiat_in_with_fee for l in lots_upto), Fraction(0)) / sum((l.amount for l in lots_upto), Fraction(0))
            if not close(report.average_price(asset), expected_avg, Fraction(1, 10**11)):
                out.append(_v("fullreport.average-price", asset=asset, shown=report.average_price(asset), expected=expected_avg))
        yearly_shown = report.yearly_lines(asset)
        yearly_computed = cd.yearly_gain_loss_list
        if len(yearly_shown) != len(yearly_computed):
            out.append(_v("fullreport.yearly-line-count", asset=asset, shown=len(yearly_shown), computed=len(yearly_computed)))
        for s, y in zip(yearly_shown, yearly_computed):
            expected_line = (y.year, y.asset, long_word if y.is_long_term_capital_gains else short_word, y.transaction_type.value.upper())
            if (int(s["year"]) if num(s["year"]) is not None else s["year"], s["asset"], s["kind"], english_type(report, str(s["type"]))) != expected_line:
                out.append(_v("fullreport.yearly-line-key", asset=asset, shown=[str(s["year"]), s["asset"], s["kind"], s["type"]], computed=list(map(str, expected_line))))
                continue
            for key, value in (("gain", y.fiat_gain_loss), ("amount", y.crypto_amount), ("proceeds", y.fiat_amount), ("cost", y.fiat_cost_basis)):
                stats.cells += 1
                if not close(s[key], frac(value)):
                    out.append(_v("fullreport.yearly-number", asset=asset, field=key, shown=s[key], computed=frac(value)))
            all_summary_expected.append(expected_line + (frac(y.fiat_gain_loss), frac(y.crypto_amount), frac(y.fiat_amount), frac(y.fiat_cost_basis)))

    # ---- Summary sheet: the per-asset yearly lines in asset order ---------------------------------------
    summary = report.summary_lines()
    if len(summary) != len(all_summary_expected):
        out.append(_v("fullreport.summary-sheet-line-count", shown=len(summary), expected=len(all_summary_expected)))
    for s, e in zip(summary, all_summary_expected):
        shown_key = (int(num(s["year"])) if num(s["year"]) is not None else s["year"], s["asset"], s["kind"], english_type(report, str(s["type"])))
        if shown_key != e[:4]:
            out.append(_v("fullreport.summary-sheet-line", shown=list(map(str, shown_key)), expected=list(map(str, e[:4]))))
            continue
        for key, value in zip(("gain", "amount", "proceeds", "cost"), e[4:]):
            stats.cells += 1
            if not close(s[key], value):
                out.append(_v("fullreport.summary-sheet-number", field=key, shown=str(s[key]), expected=value))

    # ---- Legend -----------------------------------------------------------------------------------------
    legend = report.legend()
    if len(schedule) == 1:
        expected_method = next(iter(schedule.values())).upper()
    else:
        parts = []
        old = 1970
        for year, method in schedule.items():
            parts.append(f"{old}->{year}:{method.upper()}" if year - old > 1 else f"{year}:{method.upper()}")
            old = year
        expected_method = ", ".join(parts)
    stats.cells += 3
    shown_pairs = _legend_pairs(str(legend.get("method")))
    expected_pairs = _legend_pairs(expected_method)
    if sorted(shown_pairs) != sorted(expected_pairs):  # a mapping: the order of the entries in the config section is free
        out.append(_v("fullreport.legend-method", shown=legend.get("method"), expected=expected_method))
    for key, value in (("from", from_d), ("to", to_d)):
        shown = legend.get(key)
        if value is None:
            if shown != "non-specified":
                out.append(_v("fullreport.legend-filter", field=key, shown=str(shown), expected="non-specified"))
        elif str(shown)[:10] != value.isoformat():
            out.append(_v("fullreport.legend-filter", field=key, shown=str(shown), expected=value.isoformat()))
    return out


def _legend_pairs(text: str) -> List[Tuple[int, str]]:
    """'1970->2019:FIFO, 2020:HIFO' -> [(2019,'FIFO'),(2020,'HIFO')]; 'HIFO' -> [(0,'HIFO')]."""
    if ":" not in text:
        return [(0, text.strip())]
    result = []
    for part in text.split(","):
        years, _, method = part.strip().partition(":")
        year = years.split("->")[-1]
        result.append((int(year) if year.isdigit() else -1, method.strip()))
    return result


def _ts(r: Dict[str, Any]) -> datetime:
    from rpv.gen import parse_ts

    return parse_ts(r["ts"])


def _running(model: Model, utc: datetime, amount: Fraction, what: str) -> Optional[Fraction]:
    return None


def _running_bounds(model: Model, utc: datetime, amount: Fraction, what: str) -> Tuple[Fraction, Fraction]:
    """Bounds for a running sum over the whole history that do not depend on the order of same-instant rows."""
    if what == "lots":
        items = [(l.utc, l.amount) for l in model.lots.values()]
    else:
        items = []
        for r in model.rows:
            if r["t"] == "OUT":
                items.append((_ts(r).astimezone(timezone.utc), Fraction(r["cout"])))
        for a in model.artificial:
            items.append((model.events[a].utc, Fraction(0)))
    before = sum((v for t, v in items if t < utc), Fraction(0))
    upto = sum((v for t, v in items if t <= utc), Fraction(0))
    return before + amount, upto


# ---------------------------------------------------------------------------------------------------------
# C19: hyperlinks
# ---------------------------------------------------------------------------------------------------------


def check_links(report: FullReport, hists: Dict[str, Dict[str, Any]], from_d: Optional[date], to_d: Optional[date], stats: Stats) -> List[Dict[str, Any]]:
    out: List[Dict[str, Any]] = []
    lo = from_d or date(1970, 1, 1)
    hi = to_d or date(9999, 12, 31)
    for asset in sorted(hists):
        model = Model(hists[asset])
        in_out_name = report.in_out_name(asset)
        missing = [n for n in (in_out_name, report.tax_name(asset)) if n not in report.sheets]
        if missing:
            # the sheets every link of this asset must lead to (or start from) do not exist under their names
            out.append(_v("links.asset-sheet-missing", asset=asset, missing=missing, sheets=sorted(report.sheets)[:12]))
            continue
        in_out = report.sheets[in_out_name]
        tables = report.flow_tables(asset)
        table_of_row: Dict[int, str] = {}
        for name, table in tables.items():
            for r in table.rows:
                table_of_row[r + 1] = name
        detail = report.detail_rows(asset)
        for d in detail:
            direction, ttype = split_dir_type(d["event_dir_type"])
            event_ts = parse_report_ts(d["event_ts"])
            groups = [("event", d["event_cells"], d["event_links"], str(d["event_uid"]), direction, event_ts, english_type(report, ttype))]
            if d["lot_uid"] not in (None, "") or any(c.formula for c in d["lot_cells"]):
                lot_ts = parse_report_ts(d["lot_ts"])
                groups.append(("lot", d["lot_cells"], d["lot_links"], str(d["lot_uid"]), "IN", lot_ts, None))
            for what, cells, links, uid, table_name, ts, ttype_en in groups:
                if ts is None:
                    out.append(_v("links.timestamp-unreadable", asset=asset, what=what, sheet_row=d["sheet_row"]))
                    continue
                visible = lo <= ts.date() <= hi
                if not visible:
                    for cell, link in zip(cells, links):
                        if cell.formula:
                            out.append(_v("links.hidden-transaction-carries-link", asset=asset, what=what, uid=uid, formula=cell.formula[:120], sheet_row=d["sheet_row"]))
                            break
                    else:
                        stats.plain_hidden += 1
                    continue
                for index, (cell, link) in enumerate(zip(cells, links)):
                    if link is None:
                        out.append(_v("links.visible-transaction-cell-without-link", asset=asset, what=what, uid=uid, cell_index=index, value=str(cell.value)[:60], formula=str(cell.formula)[:120], sheet_row=d["sheet_row"]))
                        break
                    stats.links += 1
                    if link.sheet != in_out_name:
                        out.append(_v("links.wrong-sheet", asset=asset, what=what, uid=uid, target=link.sheet, expected=in_out_name))
                        break
                    target_table = table_of_row.get(link.row)
                    if target_table != table_name:
                        out.append(_v("links.target-not-in-matching-table", asset=asset, what=what, uid=uid, target_row=link.row, target_table=target_table, expected_table=table_name))
                        break
                    target = in_out.row_values(link.row - 1)
                    target_uid = str(target[14]) if len(target) > 14 and target[14] is not None else ""
                    target_ts = parse_report_ts(target[1]) if len(target) > 1 else None
                    if target_uid != uid or target_ts != ts:
                        out.append(_v("links.target-is-another-transaction", asset=asset, what=what, uid=uid, ts=ts, target_row=link.row, target_uid=target_uid, target_ts=target_ts))
                        break
                    if ttype_en is not None and table_name != "INTRA":
                        target_type = english_type(report, str(target[5]))
                        if target_type != ttype_en:
                            out.append(_v("links.target-type-differs", asset=asset, uid=uid, target_type=target_type, expected=ttype_en))
                            break
        # ---- Summary lines of this asset --------------------------------------------------------------
        tax_name = report.tax_name(asset)
        first_row_of_year: Dict[int, int] = {}
        previous_year: Optional[int] = None
        for d in detail:
            ts = parse_report_ts(d["event_ts"])
            if ts is None:
                continue
            if ts.year != previous_year and ts.year not in first_row_of_year:
                first_row_of_year[ts.year] = d["sheet_row"]
            previous_year = ts.year
        detail_years = {parse_report_ts(d["event_ts"]).year for d in detail if parse_report_ts(d["event_ts"]) is not None}
        for line in report.summary_lines():
            if line["asset"] != asset:
                continue
            year = int(num(line["year"])) if num(line["year"]) is not None else None
            links = line["links"]
            if year not in detail_years:
                if any(l is not None for l in links):
                    out.append(_v("links.summary-line-links-to-year-without-visible-rows", asset=asset, year=year))
                else:
                    stats.summary_plain += 1
                continue
            for link in links:
                if link is None:
                    out.append(_v("links.summary-cell-without-link", asset=asset, year=year))
                    break
                stats.summary_links += 1
                if link.sheet != tax_name:
                    out.append(_v("links.summary-wrong-sheet", asset=asset, year=year, target=link.sheet, expected=tax_name))
                    break
                if link.row != first_row_of_year.get(year):
                    out.append(_v("links.summary-target-not-first-row-of-year", asset=asset, year=year, target_row=link.row, first_row_of_year=first_row_of_year.get(year)))
                    break
    return out
