"""Conservation and overdraft oracles over the input rows (C07, C08)."""

from __future__ import annotations

from datetime import date, datetime, timezone
from fractions import Fraction
from typing import Any, Dict, List, Optional, Sequence, Tuple

from rpv.gen import parse_ts
from rpv.model import Model

Account = Tuple[str, str]
REJECT_BELOW = Fraction(-1, 10**10)


class Overdraft:
    """Three-valued verdict of the overdraft oracle for one history."""

    def __init__(self) -> None:
        self.must_reject = False
        self.must_accept = True
        self.overdrawn_accounts: List[Account] = []  # accounts that are below -1e-10 after some instant
        self.negative_final: List[Account] = []
        self.first_instant: Optional[datetime] = None

    @property
    def verdict(self) -> str:
        if self.must_reject:
            return "must_reject"
        if self.must_accept:
            return "must_accept"
        return "unspecified"


def overdraft(model: Model, to_date: Optional[date] = None) -> Overdraft:
    """Replay credits and debits instant by instant.

    must_reject: some account is below -1e-10 once *all* rows of an instant are applied (then every ordering inside
                 the instant leaves a debit that drove it negative).
    must_accept: for every instant and account, balance before + the instant's IN credits covers the instant's outgoing
                 transfers, and together with the transfers received in the instant it covers the instant's out-transactions
                 (acquisitions, then transfers, then disposals of one instant - the order day-granular exports rely on; a
                 transfer funded by another transfer of the same instant stays unspecified).
    Anything else is unspecified and never alarms.
    """
    per_instant: Dict[datetime, Dict[Account, List[Fraction]]] = {}

    def slot(instant: datetime, account: Account) -> List[Fraction]:
        # [in credits, transfer credits, out debits, transfer debits]
        return per_instant.setdefault(instant, {}).setdefault(account, [Fraction(0), Fraction(0), Fraction(0), Fraction(0)])

    for r in model.rows:
        ts = parse_ts(r["ts"])
        if to_date is not None and ts.date() > to_date:
            continue
        instant = ts.astimezone(timezone.utc)
        if r["t"] == "IN":
            slot(instant, (r["ex"], r["ho"]))[0] += Fraction(r["cin"])
            if r.get("cfee"):
                slot(instant, (r["ex"], r["ho"]))[2] += Fraction(r["cfee"])
        elif r["t"] == "OUT":
            slot(instant, (r["ex"], r["ho"]))[2] += Fraction(r["cout"]) + Fraction(r["cfee"])
        else:
            slot(instant, (r["fex"], r["fho"]))[3] += Fraction(r["sent"])
            slot(instant, (r["tex"], r["tho"]))[1] += Fraction(r["recv"])
    result = Overdraft()
    balance: Dict[Account, Fraction] = {}
    for instant in sorted(per_instant):
        for account, (cin, ctr, deb_out, deb_intra) in per_instant[instant].items():
            before = balance.get(account, Fraction(0))
            deb = deb_out + deb_intra
            if deb_intra > 0 and before + cin - deb_intra < 0:
                result.must_accept = False
            if deb_out > 0 and before + cin + ctr - deb_intra - deb_out < 0:
                result.must_accept = False
            after = before + cin + ctr - deb
            balance[account] = after
            if deb > 0 and after < REJECT_BELOW:
                result.must_reject = True
                if account not in result.overdrawn_accounts:
                    result.overdrawn_accounts.append(account)
                if result.first_instant is None:
                    result.first_instant = instant
    result.negative_final = [a for a, v in balance.items() if v < 0]
    return result


def is_valid(model: Model) -> bool:
    """Valid history in the sense of the generators: no account can go negative, lots always cover disposals."""
    return overdraft(model).must_accept and model.overspend_instant() is None


def check_balances(
    model: Model,
    observed: Sequence[Tuple[str, str, Fraction, Fraction, Fraction, Fraction]],
    to_date: Optional[date] = None,
) -> List[Dict[str, Any]]:
    """Reported acquired / sent / received / final equal the flows of the account; one line per touched account."""
    violations: List[Dict[str, Any]] = []
    expected = model.balances(to_date)
    seen = set()
    for exchange, holder, acquired, sent, received, final in observed:
        account = (exchange, holder)
        if account in seen:
            violations.append({"rule": "balance.duplicate-account", "detail": {"account": list(account)}})
            continue
        seen.add(account)
        exp = expected.get(account)
        if exp is None:
            violations.append({"rule": "balance.untouched-account-listed", "detail": {"account": list(account)}})
            continue
        for name, got in (("acquired", acquired), ("sent", sent), ("received", received), ("final", final)):
            if got != exp[name]:
                violations.append({"rule": f"balance.{name}", "detail": {"account": list(account), "got": str(got), "expected": str(exp[name])}})
        if final != acquired + received - sent:
            violations.append({"rule": "balance.final-equation", "detail": {"account": list(account)}})
    for account in expected:
        if account not in seen:
            violations.append({"rule": "balance.account-missing", "detail": {"account": list(account)}})
    return violations
