"""Directed hostile workload families aimed at the state the property anchors name."""

from __future__ import annotations

import random
from datetime import datetime, timedelta, timezone
from decimal import Decimal
from typing import Any, Dict, List, Optional, Sequence, Tuple

from rpv.gen import EARN_TYPES, EXCHANGES, HOLDERS, METHODS, OFFSETS, OUT_TYPES, Q11, assign_rows, dstr, fmt_ts, q11, rand_amount, rand_price


class HB:
    """Small history builder."""

    def __init__(self, asset: str = "AAA", exchanges: Sequence[str] = EXCHANGES[:2], holders: Sequence[str] = HOLDERS[:1]) -> None:
        self.asset = asset
        self.exchanges = list(exchanges)
        self.holders = list(holders)
        self.rows: List[Dict[str, Any]] = []
        self.n = {"IN": 0, "OUT": 0, "INTRA": 0}

    def _uid(self, kind: str) -> str:
        self.n[kind] += 1
        return f"{self.asset}-{kind}-{self.n[kind]}"

    def acquire(self, instant: datetime, amount: Any, spot: Any, ttype: str = "BUY", ex: Optional[str] = None, ho: Optional[str] = None, offset: int = 0, **extra: Any) -> Dict[str, Any]:
        row = {
            "t": "IN",
            "ts": fmt_ts(instant, offset),
            "ex": ex or self.exchanges[0],
            "ho": ho or self.holders[0],
            "type": ttype,
            "spot": dstr(Decimal(str(spot))),
            "cin": dstr(Decimal(str(amount))),
            "cfee": None,
            "fin_nf": None,
            "fin_wf": None,
            "ffee": None,
            "uid": self._uid("IN"),
            "notes": "",
        }
        row.update(extra)
        self.rows.append(row)
        return row

    def dispose(self, instant: datetime, amount: Any, spot: Any, ttype: str = "SELL", cfee: Any = "0", ex: Optional[str] = None, ho: Optional[str] = None, offset: int = 0, **extra: Any) -> Dict[str, Any]:
        amount = Decimal(str(amount))
        cfee = Decimal(str(cfee))
        if ttype == "FEE":
            cout, cfee = Decimal(0), amount
        else:
            cout = amount - cfee
        row = {
            "t": "OUT",
            "ts": fmt_ts(instant, offset),
            "ex": ex or self.exchanges[0],
            "ho": ho or self.holders[0],
            "type": ttype,
            "spot": dstr(Decimal(str(spot))),
            "cout": dstr(cout),
            "cfee": dstr(cfee),
            "cout_wf": None,
            "fout_nf": None,
            "ffee": None,
            "uid": self._uid("OUT"),
            "notes": "",
        }
        row.update(extra)
        self.rows.append(row)
        return row

    def move(self, instant: datetime, sent: Any, recv: Any, spot: Any, src: Tuple[str, str], dst: Tuple[str, str], offset: int = 0) -> Dict[str, Any]:
        row = {
            "t": "INTRA",
            "ts": fmt_ts(instant, offset),
            "fex": src[0],
            "fho": src[1],
            "tex": dst[0],
            "tho": dst[1],
            "spot": dstr(Decimal(str(spot))) if spot is not None else None,
            "sent": dstr(Decimal(str(sent))),
            "recv": dstr(Decimal(str(recv))),
            "uid": self._uid("INTRA"),
            "notes": "",
        }
        self.rows.append(row)
        return row

    def done(self, rng: Optional[random.Random] = None, shuffle: bool = False) -> Dict[str, Any]:
        assign_rows(rng or random.Random(0), self.rows, shuffle=shuffle)
        return {"asset": self.asset, "exchanges": self.exchanges, "holders": self.holders, "rows": self.rows}


def T(year: int, month: int = 1, day: int = 1, hour: int = 0, minute: int = 0, second: int = 0, micro: int = 0) -> datetime:
    return datetime(year, month, day, hour, minute, second, micro, tzinfo=timezone.utc)


# ---------------------------------------------------------------------------------------------------------
# C01 / C02 families
# ---------------------------------------------------------------------------------------------------------


def income_then_disposals(rng: random.Random) -> Dict[str, Any]:
    """Lots of different rank, an income event while a best-ranked lot no larger than the income amount is current,
    then disposals that must still find that lot (the FX1 trigger, for HIFO and LOFO alike)."""
    b = HB()
    t = T(rng.randint(2016, 2021), rng.randint(1, 12), rng.randint(1, 28))
    prices = [Decimal(rng.randint(50, 500)) for _ in range(rng.randint(2, 5))]
    amounts = [rand_amount(rng, "small") for _ in prices]
    for price, amount in zip(prices, amounts):
        b.acquire(t, amount, price)
        t += timedelta(days=rng.randint(1, 40))
    if rng.random() < 0.5:
        # a first disposal that makes some lot the in-flight one
        b.dispose(t, q11(min(amounts) / 2), rng.randint(50, 500), ttype=rng.choice(OUT_TYPES))
        t += timedelta(days=rng.randint(1, 10))
    income = max(amounts) + rand_amount(rng, "small")
    b.acquire(t, income, Decimal(rng.randint(50, 500)), ttype=rng.choice(EARN_TYPES))
    if rng.random() < 0.3:
        t2 = t + timedelta(days=1)
        b.acquire(t2, rand_amount(rng, "small"), Decimal(rng.randint(50, 500)), ttype=rng.choice(EARN_TYPES))
        t = t2
    held = sum(amounts, Decimal(0)) + income
    for _ in range(rng.randint(1, 4)):
        t += timedelta(days=rng.randint(1, 30))
        part = q11(held * Decimal(rng.randint(1, 60)) / 100)
        if part <= 0:
            break
        b.dispose(t, part, rng.randint(50, 500), ttype=rng.choice(OUT_TYPES))
        held -= part
    return b.done(rng, shuffle=rng.random() < 0.5)


def better_lot_arrives(rng: random.Random) -> Dict[str, Any]:
    """A lot the method prefers arrives between two disposals while another lot is partially consumed."""
    b = HB()
    t = T(rng.randint(2016, 2021), rng.randint(1, 12), rng.randint(1, 28))
    b.acquire(t, 10, 100)
    b.acquire(t + timedelta(days=1), 10, 200)
    b.acquire(t + timedelta(days=2), 10, 50)
    t += timedelta(days=10)
    b.dispose(t, rng.choice((1, 3, 10, 12)), 300, ttype=rng.choice(OUT_TYPES))
    gap = rng.choice((timedelta(microseconds=1), timedelta(seconds=1), timedelta(days=3)))
    t += gap
    b.acquire(t, rng.choice((1, 5, 20)), rng.choice((500, 10, 200, 50)), ttype=rng.choice(("BUY", "INTEREST", "MINING")))
    t += rng.choice((timedelta(0), timedelta(microseconds=1), timedelta(days=2)))
    b.dispose(t, rng.choice((1, 6, 15)), 320, ttype=rng.choice(OUT_TYPES), offset=rng.choice(OFFSETS))
    t += timedelta(days=5)
    b.dispose(t, rng.choice((1, 2)), 320)
    return b.done(rng, shuffle=rng.random() < 0.5)


def many_tiny_lots(rng: random.Random) -> Dict[str, Any]:
    """One disposal spanning many tiny lots, then many tiny disposals of one big lot."""
    b = HB()
    t = T(rng.randint(2016, 2021), rng.randint(1, 12), rng.randint(1, 28))
    n = rng.randint(5, 14)
    total = Decimal(0)
    for _ in range(n):
        amount = rand_amount(rng, rng.choice(("dust", "small")))
        b.acquire(t, amount, rand_price(rng, rng.choice(("equal", "small"))), ttype=rng.choice(("BUY", "BUY", "STAKING", "INTEREST")))
        total += amount
        t += rng.choice((timedelta(0), timedelta(seconds=1), timedelta(days=1)))
    t += timedelta(days=1)
    big = rand_amount(rng, "huge")
    b.acquire(t, big, rand_price(rng, "small"))
    t += timedelta(days=1)
    b.dispose(t, q11(total * Decimal(rng.choice(("0.5", "0.9", "1")))), 100, ttype=rng.choice(OUT_TYPES))
    for _ in range(rng.randint(3, 10)):
        t += rng.choice((timedelta(0), timedelta(seconds=1), timedelta(days=1)))
        b.dispose(t, rng.choice((Q11, Q11 * 7, Decimal("0.001"), Decimal(1))), 100, ttype=rng.choice(OUT_TYPES))
    return b.done(rng, shuffle=rng.random() < 0.5)


def year_boundary_switch(rng: random.Random) -> Tuple[Dict[str, Any], Dict[int, str]]:
    """A partially consumed lot is left over at a year boundary where the method changes (all ordered method pairs)."""
    m1, m2 = rng.sample(list(METHODS), 2) if rng.random() < 0.9 else (rng.choice(METHODS),) * 2
    year = rng.randint(2016, 2021)
    b = HB()
    t = T(year, rng.randint(1, 6), rng.randint(1, 28))
    prices = rng.sample([40, 80, 120, 160, 200, 240], 4)
    for price in prices:
        b.acquire(t, rng.choice((4, 6, 10)), price, ttype=rng.choice(("BUY", "BUY", "MINING")))
        t += timedelta(days=rng.randint(1, 20))
    b.dispose(T(year, 11, 15), rng.choice((1, 3, 5, 7)), 300, ttype=rng.choice(OUT_TYPES))
    if rng.random() < 0.5:
        b.acquire(T(year, 12, 1), rng.choice((2, 8)), rng.choice((10, 500)))
    # disposals on both sides of the boundary, the second after the method changes
    b.dispose(T(year, 12, 31, 23, 59, 59, 999999), rng.choice((1, 2)), 310)
    b.dispose(T(year + 1, 1, 1, 0, 0, 0, rng.choice((0, 1))), rng.choice((1, 4, 9)), 320, ttype=rng.choice(OUT_TYPES))
    b.dispose(T(year + 1, 3, 1), rng.choice((1, 2, 3)), 330)
    schedule = {rng.choice((1970, year, year - 1)): m1, year + 1: m2}
    if rng.random() < 0.3:
        schedule[year + 2] = rng.choice(METHODS)
    return b.done(rng, shuffle=rng.random() < 0.5), schedule


def same_instant_other_offset(rng: random.Random) -> Dict[str, Any]:
    """A lot acquired at exactly the disposal's instant, written in another UTC offset, plus earlier lots."""
    b = HB()
    t = T(rng.randint(2016, 2021), rng.randint(2, 11), rng.randint(2, 27), rng.randint(0, 23))
    b.acquire(t - timedelta(days=30), 5, 100)
    b.acquire(t - timedelta(days=20), 5, 300)
    off_a, off_b = rng.sample(list(OFFSETS), 2)
    b.acquire(t, rng.choice((1, 5, 10)), rng.choice((50, 200, 400)), offset=off_a, ttype=rng.choice(("BUY", "AIRDROP")))
    b.dispose(t, rng.choice((1, 5, 6, 12)), 250, offset=off_b, ttype=rng.choice(OUT_TYPES))
    b.dispose(t + timedelta(days=1), 1, 250)
    return b.done(rng, shuffle=rng.random() < 0.5)


def kf5_reproducer() -> Tuple[Dict[str, Any], Dict[int, str]]:
    """KF5: two taxable events at one instant with different own-timestamp years across a method change."""
    b = HB()
    b.acquire(T(2019, 3, 1), 10, 100)  # FIFO's pick (oldest), LIFO would pick the newest
    b.acquire(T(2019, 6, 1), 10, 200)
    instant = T(2020, 1, 1, 2, 0, 0)  # 2020 in UTC, still 2019 at UTC-8
    b.dispose(instant, 3, 300, offset=-480)  # own year 2019 -> fifo
    b.dispose(instant, 3, 300, offset=0)  # own year 2020 -> lifo, but the in-flight FIFO lot is kept
    return b.done(), {1970: "fifo", 2020: "lifo"}


# ---------------------------------------------------------------------------------------------------------
# overspending mutations (C02, C08)
# ---------------------------------------------------------------------------------------------------------


def total_overspend(hist: Dict[str, Any], rng: random.Random) -> Optional[Dict[str, Any]]:
    """Inflate one disposal / delete one lot / move a disposal before its funding (may or may not overspend lots:
    the oracle decides from the input which it is)."""
    import copy

    h = copy.deepcopy(hist)
    outs = [r for r in h["rows"] if r["t"] == "OUT" and r["type"] != "FEE"]
    ins = [r for r in h["rows"] if r["t"] == "IN"]
    choice = rng.random()
    if choice < 0.5 and outs:
        r = rng.choice(outs)
        factor = rng.choice((Decimal("1.5"), Decimal(3), Decimal(10), Decimal("1.0001")))
        r["cout"] = dstr(q11(Decimal(r["cout"]) * factor) + rng.choice((Decimal(0), Q11, Decimal(1))))
        r["cout_wf"] = None
        return h
    if choice < 0.75 and len(ins) > 1:
        h["rows"].remove(rng.choice(ins))
        return h
    if outs:
        r = rng.choice(outs)
        from rpv.gen import parse_ts

        earliest = min(parse_ts(x["ts"]) for x in h["rows"])
        r["ts"] = fmt_ts(earliest - timedelta(days=rng.choice((0, 1, 400))), 0)
        return h
    return None


# ---------------------------------------------------------------------------------------------------------
# instant order vs own-date order (C15, C16): events around a day / year boundary in far-apart UTC offsets
# ---------------------------------------------------------------------------------------------------------


def inverted_dates(rng: random.Random, asset: str = "AAA", kinds: Sequence[str] = ("OUT", "OUT", "IN", "INTRA"), at_new_year: bool = True) -> Tuple[Dict[str, Any], Dict[str, Any]]:
    """A valid history whose lots are all acquired well before a boundary day, followed by pairs of transactions around the
    boundary whose own-date order is the reverse of their instant order: the earlier instant is written in an eastern offset
    (already the next day / year there), the later one in a western offset (still the previous day / year). Returns the
    history and {"boundary": date (last day before the boundary), "inverted_kinds": [...]}: a to-date equal to `boundary`
    (or a from-date one day later) cuts between the two own dates."""
    b = HB(asset=asset, exchanges=EXCHANGES[:2], holders=HOLDERS[:1])
    year = rng.randint(2016, 2022)
    if at_new_year:
        boundary = datetime(year, 12, 31, tzinfo=timezone.utc)
    else:
        boundary = datetime(year, rng.randint(2, 11), rng.randint(2, 27), tzinfo=timezone.utc)
    midnight = boundary + timedelta(days=1)  # 00:00 UTC of the day after the boundary day
    t = midnight - timedelta(days=rng.randint(200, 500))
    for _ in range(rng.randint(3, 5)):
        b.acquire(t, rng.choice((4, 5, 10, "2.5")), rng.randint(50, 500), ttype=rng.choice(("BUY", "BUY", "INTEREST", "MINING")), ex=rng.choice(b.exchanges))
        t += timedelta(days=rng.randint(5, 40))
    b.dispose(t, 1, 200, ex=b.rows[0]["ex"])
    used: List[str] = []
    east = [o for o in OFFSETS if o >= 330]
    west = [o for o in OFFSETS if o <= -480]
    clock = midnight - timedelta(hours=4)
    for kind in rng.sample(list(kinds), rng.randint(1, min(3, len(kinds)))):
        # first (earlier instant): after local midnight in the east; second (later instant): before local midnight in the west
        off_e = rng.choice(east)
        off_w = rng.choice(west)
        first = midnight - timedelta(minutes=off_e) + timedelta(minutes=rng.randint(1, 60))
        first = max(first, clock + timedelta(minutes=1))
        second = first + timedelta(minutes=rng.randint(30, 180))
        if first.astimezone(timezone(timedelta(minutes=off_e))).date() <= boundary.date() or second.astimezone(timezone(timedelta(minutes=off_w))).date() > boundary.date():
            continue
        clock = second
        holder = b.holders[0]
        for instant, off in ((first, off_e), (second, off_w)):
            if kind == "OUT":
                source = rng.choice([r for r in b.rows if r["t"] == "IN"])
                b.dispose(instant, rng.choice(("0.25", "0.5", 1)), rng.randint(50, 500), ttype=rng.choice(OUT_TYPES), ex=source["ex"], ho=holder, offset=off)
            elif kind == "IN":
                b.acquire(instant, rng.choice((1, 2, 3)), rng.randint(50, 500), ttype=rng.choice(("BUY", "STAKING", "AIRDROP")), ex=rng.choice(b.exchanges), offset=off)
            else:
                source = rng.choice([r for r in b.rows if r["t"] == "IN"])
                other = [e for e in b.exchanges if e != source["ex"]][0]
                b.move(instant, "0.5", rng.choice(("0.5", "0.49")), rng.randint(50, 500), (source["ex"], holder), (other, holder), offset=off)
        used.append(kind)
    later = clock + timedelta(days=rng.randint(20, 300))
    b.dispose(later, "0.5", 300, ex=b.rows[0]["ex"])
    b.acquire(later + timedelta(days=3), 1, 310)
    return b.done(rng, shuffle=rng.random() < 0.5), {"boundary": boundary.date().isoformat(), "inverted_kinds": used}


def lot_after_cut_needed(rng: random.Random) -> Tuple[Dict[str, Any], str]:
    """A lot whose own date is after a day boundary B (written in an eastern offset) but whose instant precedes a disposal
    dated on B (western offset) that needs it: with to-date B the disposal is inside the window, the lot is not. Matching
    always covers all history, so the run must succeed with and without the to-date. Returns (history, to-date)."""
    b = HB()
    year = rng.randint(2016, 2022)
    boundary = datetime(year, 12, 31, tzinfo=timezone.utc) if rng.random() < 0.5 else datetime(year, rng.randint(2, 11), rng.randint(2, 27), tzinfo=timezone.utc)
    midnight = boundary + timedelta(days=1)
    t = midnight - timedelta(days=rng.randint(100, 400))
    held = Decimal(0)
    for _ in range(rng.randint(1, 3)):
        amount = Decimal(rng.choice((1, 2, 5)))
        b.acquire(t, amount, rng.randint(50, 500), ttype=rng.choice(("BUY", "INTEREST")))
        held += amount
        t += timedelta(days=rng.randint(3, 30))
    off_e = rng.choice([o for o in OFFSETS if o >= 330])
    off_w = rng.choice([o for o in OFFSETS if o <= -480])
    first = midnight - timedelta(minutes=off_e) + timedelta(minutes=rng.randint(1, 90))
    late = Decimal(rng.choice((1, 3, 10)))
    b.acquire(first, late, rng.randint(50, 500), offset=off_e, ttype=rng.choice(("BUY", "MINING")))
    held += late
    second = first + timedelta(minutes=rng.randint(20, 200))
    if second.astimezone(timezone(timedelta(minutes=off_w))).date() > boundary.date():
        second = first + timedelta(minutes=5)
    # needs the late lot: everything, or everything but a crumb
    amount = held if rng.random() < 0.6 else held - Decimal("0.5")
    b.dispose(second, amount, rng.randint(50, 500), offset=off_w, ttype=rng.choice(("SELL", "GIFT", "LOST")))
    if rng.random() < 0.5:
        b.acquire(second + timedelta(days=rng.randint(2, 50)), 1, 200)
    return b.done(rng, shuffle=rng.random() < 0.5), boundary.date().isoformat()


def same_second_fee_lots(rng: random.Random, asset: str = "AAA") -> Dict[str, Any]:
    """Parser-path family (C17): 2-4 acquisitions that pay a crypto fee, all inside one second at pairwise distinct
    microseconds and at different prices, then disposals that consume some of them. All timestamps are distinct instants,
    so the result may not depend on the order of the rows in the sheet."""
    b = HB(asset=asset, exchanges=EXCHANGES[:2], holders=HOLDERS[:2])
    t = T(rng.randint(2016, 2022), rng.randint(1, 12), rng.randint(1, 28), rng.randint(0, 23), rng.randint(0, 59), rng.randint(0, 59))
    b.acquire(t - timedelta(days=rng.randint(30, 400)), rng.choice((1, 2)), rng.randint(50, 500), ho="Pro_Bob")
    micros = sorted(rng.sample(range(1, 999999), rng.randint(2, 4)))
    held = Decimal(0)
    for micro in micros:
        amount = Decimal(rng.choice((1, 2, 4)))
        b.acquire(t + timedelta(microseconds=micro), amount, rng.randint(50, 900), ho="Pro_Bob", cfee=rng.choice(("0.01", "0.02", "0.001")))
        held += amount
    later = t + timedelta(seconds=1, microseconds=rng.randint(0, 500000))
    b.dispose(later, rng.choice(("0.5", "1", "1.5")), rng.randint(50, 900), ho="Pro_Bob", ttype=rng.choice(("SELL", "GIFT")))
    b.dispose(later + timedelta(days=rng.randint(1, 500)), rng.choice(("0.5", "1")), rng.randint(50, 900), ho="Pro_Bob")
    return b.done(rng, shuffle=True)


def same_instant_transfer_then_sale(rng: random.Random, asset: str = "AAA") -> Dict[str, Any]:
    """Day- or minute-granular exports: a transfer into an account and a disposal from that account carry exactly the same
    timestamp, and the account's earlier balance alone does not cover the disposal. The pinned tree credits the transfers of an
    instant before it debits the instant's out-transactions, so it accepts such input (C16 assumption; chains of transfers
    inside one instant stay unspecified and are not generated)."""
    b = HB(asset=asset, exchanges=EXCHANGES[:3], holders=HOLDERS[:1])
    holder = b.holders[0]
    t = T(rng.randint(2016, 2022), rng.randint(1, 12), rng.randint(1, 28))
    b.acquire(t, 10, rng.randint(50, 500), ex="Coinbase")
    b.acquire(t + timedelta(days=5), 4, rng.randint(50, 500), ex="Coinbase", ttype="INTEREST")
    day = t + timedelta(days=rng.randint(10, 400))
    offset_a, offset_b = (0, 0) if rng.random() < 0.6 else rng.sample(list(OFFSETS), 2)
    sent = Decimal(rng.choice((5, 6, 8)))
    fee = Decimal(rng.choice(("0", "0.01")))
    b.move(day, sent, sent - fee, rng.randint(50, 500), ("Coinbase", holder), ("Coinbase_Pro", holder), offset=offset_a)
    b.dispose(day, rng.choice((2, 3, sent - fee)), rng.randint(50, 500), ex="Coinbase_Pro", ho=holder, offset=offset_b, ttype=rng.choice(("SELL", "GIFT", "DONATE")))
    if rng.random() < 0.5:
        b.dispose(day + timedelta(days=30), 1, rng.randint(50, 500), ex="Coinbase", ho=holder)
    return b.done(rng, shuffle=rng.random() < 0.7)


def many_lots_one_sale(rng: random.Random, asset: str = "AAA") -> Dict[str, Any]:
    """24-40 small acquisitions, then one disposal spanning (almost) all of them and a few more: an asset whose gain/loss
    fractions outnumber its taxable events by dozens (report sheets are sized from counts)."""
    b = HB(asset=asset, exchanges=EXCHANGES[:2], holders=HOLDERS[:1])
    t = T(rng.randint(2016, 2021), rng.randint(1, 12), rng.randint(1, 28))
    n = rng.randint(24, 40)
    for k in range(n):
        b.acquire(t, rng.choice((1, 1, "0.5", 2)), rng.randint(50, 900), ttype=rng.choice(("BUY", "BUY", "INTEREST", "MINING")))
        t += timedelta(days=rng.choice((1, 7, 14)), seconds=rng.randint(0, 3600))
    held = sum(Decimal(r["cin"]) for r in b.rows)
    b.dispose(t + timedelta(days=5), held - Decimal("0.5"), rng.randint(50, 900), ttype=rng.choice(("SELL", "GIFT")))
    b.acquire(t + timedelta(days=9), 1, 300)
    b.dispose(t + timedelta(days=20), "0.75", 310)
    return b.done(rng, shuffle=rng.random() < 0.5)


def sold_in_thirds(rng: random.Random, asset: str = "AAA") -> Dict[str, Any]:
    """An asset sold completely, each lot in three or seven equal parts (the consumed percentages of a lot - 1/3, 1/7 - do not
    add up to exactly 1 in decimal arithmetic), under any method."""
    b = HB(asset=asset, exchanges=EXCHANGES[:2], holders=HOLDERS[:1])
    t = T(rng.randint(2016, 2021), rng.randint(1, 12), rng.randint(1, 28))
    for amount, part, parts in rng.sample([("3", "1", 3), ("7", "1", 7), ("1.5", "0.5", 3), ("6", "2", 3), ("21", "3", 7), ("0.21", "0.03", 7)], rng.randint(1, 3)):
        b.acquire(t, amount, rng.randint(50, 900), ttype=rng.choice(("BUY", "STAKING")))
        t += timedelta(days=rng.randint(1, 30))
        for _ in range(parts):
            b.dispose(t, part, rng.randint(50, 900), ttype=rng.choice(("SELL", "SELL", "GIFT", "LOST")))
            t += timedelta(days=rng.randint(1, 90))
    return b.done(rng, shuffle=rng.random() < 0.5)


def stale_with_fee_overdraft(rng: random.Random, asset: str = "AAA") -> Dict[str, Any]:
    """An out-row whose exchange-supplied crypto_out_with_fee cell is smaller than amount + fee, on an account that the real
    amount overdraws: the matcher consumes the supplied figure (lots stay partly unsold), the balance replay debits amount +
    fee (every account ends <= 0). Only acceptable with -n, and then it must run to completion (FX7)."""
    b = HB(asset=asset, exchanges=EXCHANGES[:2], holders=HOLDERS[:1])
    t = T(rng.randint(2016, 2022), rng.randint(1, 12), rng.randint(1, 28))
    bought = Decimal(rng.choice((10, 4, "2.5")))
    b.acquire(t, bought, rng.randint(50, 500))
    over = bought + Decimal(rng.choice((1, 2, "0.5")))
    b.dispose(t + timedelta(days=rng.randint(5, 400)), over, rng.randint(50, 500), cout_wf=dstr(bought / 2))
    return b.done(rng)


def in_fee_overdraft(rng: random.Random, asset: str = "AAA") -> Dict[str, Any]:
    """Parser-path family (C08): an acquisition whose crypto fee exceeds what it brings in plus what its account holds. The
    fee is a debit like any other (RP2 models it as a fee-typed out-transaction), lots held on another account cover it, so
    only the balance replay can reject it. Variants: nothing follows / the account is refilled later / a later disposal
    from the refilled account."""
    b = HB(asset=asset, exchanges=EXCHANGES[:2], holders=HOLDERS[:1])
    ho = HOLDERS[0]
    t = T(rng.randint(2016, 2022), rng.randint(1, 12), rng.randint(1, 28))
    b.acquire(t, rng.choice((10, 4, "2.5")), rng.randint(50, 500), ex=EXCHANGES[0])
    t += timedelta(days=rng.randint(3, 200))
    held = Decimal(0)
    if rng.random() < 0.4:
        held = Decimal(rng.choice(("0.1", "0.25")))
        b.move(t, held, held, rng.randint(50, 500), (EXCHANGES[0], ho), (EXCHANGES[1], ho))
        t += timedelta(days=rng.randint(1, 50))
    cin = Decimal(rng.choice(("0.5", "0.2", "0.01")))
    fee = cin + held + Decimal(rng.choice(("0.3", "0.001", "0.000001")))
    b.acquire(t, cin, rng.randint(50, 500), ex=EXCHANGES[1], ttype=rng.choice(("BUY", "INTEREST")), cfee=dstr(fee))
    variant = rng.randrange(3)
    if variant:
        t += timedelta(days=rng.randint(1, 90))
        b.acquire(t, 3, rng.randint(50, 500), ex=EXCHANGES[1])
        if variant == 2:
            b.dispose(t + timedelta(days=rng.randint(1, 90)), 1, rng.randint(50, 500), ex=EXCHANGES[1])
    return b.done(rng)


def share_transfer_ids(hist: Dict[str, Any], rng: random.Random) -> int:
    """Batched withdrawals: several transfer rows carry the same unique id (one on-chain transaction hash covers them all).
    Rewrites the history in place; returns the number of transfer rows that now repeat the id of another transfer between the
    same ordered pair of accounts."""
    groups: Dict[Tuple[str, str, str, str], List[Dict[str, Any]]] = {}
    for r in hist["rows"]:
        if r["t"] == "INTRA":
            groups.setdefault((r["fex"], r["fho"], r["tex"], r["tho"]), []).append(r)
    repeated = 0
    for rows in groups.values():
        if len(rows) > 1 and rng.random() < 0.8:
            for r in rows[1:]:
                r["uid"] = rows[0]["uid"]
                repeated += 1
    if not repeated:
        intra = [r for r in hist["rows"] if r["t"] == "INTRA"]
        for r in intra[1:]:
            r["uid"] = intra[0]["uid"]  # same hash, different accounts
    return repeated


def batched_transfers(rng: random.Random, asset: str = "AAA") -> Dict[str, Any]:
    """One withdrawal split by the exchange into 2-4 transfer rows with the same unique id between the same two accounts (same
    instant or minutes apart, equal or different amounts), then a disposal from the receiving account that needs all of them."""
    b = HB(asset=asset, exchanges=EXCHANGES[:3], holders=HOLDERS[:1])
    ho = HOLDERS[0]
    t = T(rng.randint(2016, 2022), rng.randint(1, 12), rng.randint(1, 28), rng.randint(0, 23))
    b.acquire(t, 20, rng.randint(50, 500), ex=EXCHANGES[0])
    t += timedelta(days=rng.randint(1, 100))
    n = rng.randint(2, 4)
    amount = Decimal(rng.choice(("1", "2.5", "0.3")))
    total = Decimal(0)
    for k in range(n):
        sent = amount if rng.random() < 0.5 else amount + Decimal(k) / 10
        fee = Decimal(rng.choice(("0", "0", "0.001")))
        row = b.move(t, sent, sent - fee, rng.randint(50, 500), (EXCHANGES[0], ho), (EXCHANGES[1], ho))
        row["uid"] = f"{asset}-batch"
        total += sent - fee
        if rng.random() < 0.5:
            t += timedelta(minutes=rng.randint(1, 30))
    b.dispose(t + timedelta(days=rng.randint(1, 300)), total, rng.randint(50, 500), ex=EXCHANGES[1])
    return b.done(rng, shuffle=rng.random() < 0.5)


def nearly_equal_prices(rng: random.Random) -> Dict[str, Any]:
    """2-4 lots whose spot prices agree to 16-17 significant digits and differ in the 11th decimal (8-digit integer part): exact
    decimals tell them apart, binary doubles do not. The lot a price-ranked method prefers is never the oldest."""
    b = HB()
    t = T(rng.randint(2016, 2021), rng.randint(1, 12), rng.randint(1, 28))
    base = Decimal(rng.randint(1_000_000, 9_999_999)) + Decimal(rng.randint(0, 10**11 - 10)) / Decimal(10**11)
    n = rng.randint(2, 4)
    steps = list(range(n))
    if rng.random() < 0.5:
        steps.reverse()  # prices rise with age or fall with age: one of HIFO / LOFO must pass over the oldest lot
    amounts = [rand_amount(rng, "small") for _ in steps]
    for step, amount in zip(steps, amounts):
        b.acquire(t, amount, base + Decimal(step) * Q11)
        t += timedelta(days=rng.randint(1, 40))
    held = sum(amounts, Decimal(0))
    for _ in range(rng.randint(1, 3)):
        t += timedelta(days=rng.randint(1, 30))
        part = q11(held * Decimal(rng.randint(5, 45)) / 100)
        if part <= 0:
            break
        b.dispose(t, part, rng.randint(50, 500), ttype=rng.choice(OUT_TYPES))
        held -= part
    return b.done(rng, shuffle=rng.random() < 0.5)


def same_instant_transfer_chain(rng: random.Random, asset: str = "AAA") -> Dict[str, Any]:
    """Two transfers at one instant under one unique id (legs of one on-chain transaction): the first overdraws account X, the
    second, from an account that holds enough, refills X. Whether that is an overdraft depends on the order the legs are applied
    in - the overdraft oracle calls it unspecified - but it cannot depend on what the unique ids are."""
    b = HB(asset=asset, exchanges=EXCHANGES[:3], holders=HOLDERS[:1])
    ho = HOLDERS[0]
    x, y, z = [(e, ho) for e in EXCHANGES[:3]]
    t = T(rng.randint(2016, 2022), rng.randint(1, 12), rng.randint(1, 28), rng.randint(0, 23))
    b.acquire(t, 1, rng.randint(50, 500), ex=x[0])
    b.acquire(t + timedelta(days=1), 10, rng.randint(50, 500), ex=y[0])
    t += timedelta(days=rng.randint(2, 60))
    legs = [b.move(t, 3, 3, rng.randint(50, 500), x, z), b.move(t, 5, rng.choice(("5", "4.99")), rng.randint(50, 500), y, x)]
    if rng.random() < 0.5:
        legs.reverse()
        b.rows[-2], b.rows[-1] = b.rows[-1], b.rows[-2]
    for leg in legs:
        leg["uid"] = f"{asset}-onchain"
    if rng.random() < 0.5:
        b.dispose(t + timedelta(days=rng.randint(1, 30)), 1, rng.randint(50, 500), ex=x[0])
    return b.done(rng, shuffle=False)


def method_switch_in_an_empty_year(rng: random.Random) -> Tuple[Dict[str, Any], Dict[int, str]]:
    """The configured method changes in a year in which the asset has no transaction at all; a partially consumed lot is carried
    across, the new method prefers another lot for the next sale, and more lots are acquired after that sale."""
    m1, m2 = rng.sample(list(METHODS), 2)
    year = rng.randint(2015, 2020)
    b = HB()
    t = T(year, rng.randint(1, 5), rng.randint(1, 28))
    for price in rng.sample([40, 80, 120, 160, 200, 240], 3):
        b.acquire(t, rng.choice((4, 6, 10)), price)
        t += timedelta(days=rng.randint(1, 20))
    b.dispose(T(year, rng.randint(9, 12), rng.randint(1, 28)), rng.choice((1, 3, 5)), 300, ttype=rng.choice(OUT_TYPES))
    gap = rng.choice((1, 1, 2))  # whole calendar years without any row
    b.dispose(T(year + gap + 1, rng.randint(1, 6), rng.randint(1, 28)), rng.choice((1, 2, 4)), 320, ttype=rng.choice(OUT_TYPES))
    t = T(year + gap + 1, rng.randint(7, 12), rng.randint(1, 28))
    for _ in range(rng.randint(1, 3)):
        b.acquire(t, rng.choice((2, 8)), rng.choice((10, 500, 90)))
        t += timedelta(days=rng.randint(1, 40))
    if rng.random() < 0.5:
        b.dispose(t + timedelta(days=30), 1, 330)
    schedule = {1970: m1, year + rng.randint(1, gap): m2}
    return b.done(rng, shuffle=rng.random() < 0.5), schedule


def tiny_fee_transfer(rng: random.Random, asset: str = "AAA") -> Dict[str, Any]:
    """A transfer whose non-zero crypto fee is worth less than 5e-14 in fiat (a 1e-11 .. 9e-11 fee of a sub-cent coin): RP2 does not
    treat it as a taxable event (known finding KF4 of C03). Reports must then say so consistently everywhere."""
    b = HB(asset=asset, exchanges=EXCHANGES[:2], holders=HOLDERS[:1])
    ho = HOLDERS[0]
    t = T(rng.randint(2016, 2021), rng.randint(1, 12), rng.randint(1, 28))
    bought = rng.choice((10, 1000, 250000))
    b.acquire(t, bought, rng.choice(("0.004", "0.0004", "0.00049")))
    t += timedelta(days=rng.randint(1, 60))
    fee = Q11 * rng.randint(1, 9)
    sent = Decimal(rng.choice((1, 5, 100) if bought > 200 else (1, 5)))  # the account holds what it sends
    b.move(t, sent, sent - fee, rng.choice(("0.004", "0.0005", "0.00002")), (EXCHANGES[0], ho), (EXCHANGES[1], ho))
    if rng.random() < 0.6:
        b.move(t + timedelta(days=3), 1, Decimal(1) - Decimal("0.001"), "0.004", (EXCHANGES[0], ho), (EXCHANGES[1], ho))  # an ordinary fee next to it
    b.dispose(t + timedelta(days=rng.randint(5, 400)), rng.choice((1, 2)), rng.choice(("0.006", "0.01")))
    return b.done(rng, shuffle=rng.random() < 0.5)


def understated_total_empties_account(rng: random.Random, asset: str = "AAA") -> Dict[str, Any]:
    """The disposal that empties the asset's only funded account carries an exchange-supplied crypto_out_with_fee smaller than
    amount + fee: the account ends at exactly zero (a valid history, no -n needed) while part of a lot stays unsold. The asset has
    no open position to list, and its left-over lot cost must not count in the portfolio either (FX7)."""
    b = HB(asset=asset, exchanges=EXCHANGES[:2], holders=HOLDERS[:1])
    t = T(rng.randint(2016, 2022), rng.randint(1, 12), rng.randint(1, 28))
    bought = Decimal(rng.choice((10, 4, "2.5")))
    b.acquire(t, bought, rng.randint(50, 500))
    if rng.random() < 0.5:
        t += timedelta(days=rng.randint(1, 100))
        b.dispose(t, bought / 4, rng.randint(50, 500))
        bought -= bought / 4
    fee = Decimal(rng.choice(("0", "0.1")))
    b.dispose(t + timedelta(days=rng.randint(5, 400)), bought, rng.randint(50, 500), cfee=fee, cout_wf=dstr(bought - Decimal(rng.choice(("0.5", "0.001", "1")))))
    return b.done(rng)
