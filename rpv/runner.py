"""Check runner: shards a check over worker processes, merges what the monitors observed, decides the verdict.

Verdicts are three-valued and never folded:
  exit 0  held on everything observed (KNOWN-FINDING lines printed for listed findings that still reproduce)
  exit 1  VIOLATION property=<id> replay=<path>
  exit 2  INCONCLUSIVE property=<id> reason=...
"""

from __future__ import annotations

import argparse
import hashlib
import importlib
import json
import os
import random
import subprocess
import sys
import time
import traceback
from pathlib import Path
from typing import Any, Dict, List, Optional

from rpv import evidence, findings
from rpv.common import EVIDENCE_DIR, PYTHON, REPLAY_DIR, VERIF_ROOT, ncpu, rp2_src, scratch_dir, seed_from_env, tier_from_env


class ShardCtx:
    """What a check's run_shard() gets."""

    def __init__(self, prop: str, tier: str, seed: int, shard: int, nshards: int, budget_s: float, scratch: str) -> None:
        self.prop = prop
        self.tier = tier
        self.seed = seed
        self.shard = shard
        self.nshards = nshards
        self.budget_s = budget_s
        self.scratch = scratch
        self.t0 = time.time()
        self.counters: Dict[str, int] = {}
        self.sets: Dict[str, set] = {}
        self.maxima: Dict[str, float] = {}
        self.violations: List[Dict[str, Any]] = []
        self.known: List[Dict[str, Any]] = []
        self.samples: List[Any] = []
        self.notes: List[str] = []
        self.max_violations = 12

    # ---- randomness --------------------------------------------------------------------------------
    def rng(self, *salt: Any) -> random.Random:
        text = json.dumps([self.seed, self.prop, list(map(str, salt))])
        return random.Random(int(hashlib.sha256(text.encode()).hexdigest()[:16], 16))

    # ---- budget ------------------------------------------------------------------------------------
    def time_left(self) -> float:
        return self.budget_s - (time.time() - self.t0)

    def expired(self) -> bool:
        return self.time_left() <= 0

    def share(self, total: int) -> int:
        """This shard's part of a total case count."""
        base = total // self.nshards
        return base + (1 if self.shard < total % self.nshards else 0)

    # ---- observations ------------------------------------------------------------------------------
    def count(self, name: str, n: int = 1) -> None:
        self.counters[name] = self.counters.get(name, 0) + n

    def distinct(self, name: str, obj: Any) -> None:
        digest = hashlib.sha1(json.dumps(obj, sort_keys=True, default=str).encode()).hexdigest()[:14]
        self.sets.setdefault(name, set()).add(digest)

    def tag(self, name: str, label: str) -> None:
        """Record a coverage label (kept verbatim, not hashed)."""
        self.sets.setdefault(name, set()).add(label)

    def maximum(self, name: str, value: float) -> None:
        if value > self.maxima.get(name, float("-inf")):
            self.maxima[name] = value

    def sample(self, obj: Any, limit: int = 2) -> None:
        if len(self.samples) < limit:
            self.samples.append(obj)

    def violation(self, rule: str, detail: Any, case: Any, mechanism: str = "") -> None:
        self.count("violations_raw")
        if len(self.violations) < self.max_violations:
            self.violations.append({"rule": rule, "mechanism": mechanism, "detail": detail, "case": case})

    def known_finding(self, key: str, reproduces: bool, what: str) -> None:
        self.known.append({"key": key, "reproduces": reproduces, "what": what})

    def result(self) -> Dict[str, Any]:
        return {
            "shard": self.shard,
            "counters": self.counters,
            "sets": {k: sorted(v) for k, v in self.sets.items()},
            "maxima": self.maxima,
            "violations": self.violations,
            "known": self.known,
            "samples": self.samples,
            "notes": self.notes,
            "wall_s": time.time() - self.t0,
        }


def load_check(prop: str) -> Any:
    return importlib.import_module(f"rpv.checks.{prop.lower()}")


# ---------------------------------------------------------------------------------------------------------
# worker side
# ---------------------------------------------------------------------------------------------------------


def worker_main(argv: List[str]) -> int:
    parser = argparse.ArgumentParser()
    parser.add_argument("prop")
    parser.add_argument("--tier", required=True)
    parser.add_argument("--seed", type=int, required=True)
    parser.add_argument("--shard", type=int, required=True)
    parser.add_argument("--nshards", type=int, required=True)
    parser.add_argument("--budget", type=float, required=True)
    parser.add_argument("--out", required=True)
    parser.add_argument("--replay", default="")
    args = parser.parse_args(argv)
    import faulthandler

    faulthandler.enable()
    if os.environ.get("RPV_REACH_LOG"):
        from rpv.monitors import reach

        reach.start(os.path.join(rp2_src(), "rp2"), os.environ["RPV_REACH_LOG"])
    with scratch_dir(prefix=f"vp-{args.prop}-{args.shard}-") as scratch:
        os.chdir(scratch)
        ctx = ShardCtx(args.prop, args.tier, args.seed, args.shard, args.nshards, args.budget, scratch)
        status = "ok"
        try:
            module = load_check(args.prop)
            if args.replay:
                with open(args.replay, encoding="utf-8") as handle:
                    replay = json.load(handle)
                module.replay(ctx, replay["case"])
            else:
                module.run_shard(ctx)
        except Exception:  # pylint: disable=broad-except
            status = "crash"
            ctx.notes.append(traceback.format_exc()[-3000:])
        result = ctx.result()
        result["status"] = status
        os.chdir("/")
        with open(args.out, "w", encoding="utf-8") as handle:
            json.dump(result, handle, default=str)
    return 0


# ---------------------------------------------------------------------------------------------------------
# main side
# ---------------------------------------------------------------------------------------------------------


def _spawn(prop: str, tier: str, seed: int, shard: int, nshards: int, budget: float, out: str, replay: str = "") -> subprocess.Popen:  # type: ignore[type-arg]
    env = dict(os.environ)
    env.setdefault("PYTHONHASHSEED", "0")
    env["PYTHONDONTWRITEBYTECODE"] = "1"
    env["PYTHONPATH"] = os.pathsep.join([rp2_src(), str(VERIF_ROOT)] + ([env["PYTHONPATH"]] if env.get("PYTHONPATH") else []))
    env["RP2_VERIF"] = "1"
    command = [
        PYTHON,
        "-m",
        "rpv.worker",
        prop,
        "--tier",
        tier,
        "--seed",
        str(seed),
        "--shard",
        str(shard),
        "--nshards",
        str(nshards),
        "--budget",
        str(budget),
        "--out",
        out,
    ]
    if replay:
        command += ["--replay", replay]
    return subprocess.Popen(command, env=env, cwd="/", stdout=subprocess.DEVNULL, stderr=subprocess.PIPE)


def _merge(results: List[Dict[str, Any]]) -> Dict[str, Any]:
    merged: Dict[str, Any] = {"counters": {}, "sets": {}, "maxima": {}, "violations": [], "known": [], "samples": [], "notes": []}
    for r in results:
        for k, v in r.get("counters", {}).items():
            merged["counters"][k] = merged["counters"].get(k, 0) + v
        for k, v in r.get("sets", {}).items():
            merged["sets"].setdefault(k, set()).update(v)
        for k, v in r.get("maxima", {}).items():
            merged["maxima"][k] = max(merged["maxima"].get(k, float("-inf")), v)
        merged["violations"].extend(r.get("violations", []))
        merged["known"].extend(r.get("known", []))
        merged["samples"].extend(r.get("samples", []))
        merged["notes"].extend(r.get("notes", []))
    return merged


def run_check(prop: str, tier: str, seed: int, workers: Optional[int] = None, budget: Optional[float] = None) -> int:
    t0 = time.time()
    prop = prop.upper()
    module = load_check(prop)
    settings = module.SETTINGS[tier]
    budget_s = float(budget if budget is not None else settings.get("budget_s", 60 if tier == "quick" else 300))
    env_budget = os.environ.get("RPV_BUDGET_S")
    if env_budget and budget is None:
        budget_s = float(env_budget)
    nshards = workers or min(ncpu(), int(settings.get("max_workers", 16)))
    watchdog = max(120.0, budget_s * 10)

    results: List[Dict[str, Any]] = []
    problems: List[str] = []
    with scratch_dir(prefix=f"vp-{prop}-main-") as scratch:
        procs = []
        for shard in range(nshards):
            out = os.path.join(scratch, f"shard{shard}.json")
            procs.append((shard, out, _spawn(prop, tier, seed, shard, nshards, budget_s, out)))
        deadline = time.time() + watchdog
        for shard, out, proc in procs:
            try:
                _, err = proc.communicate(timeout=max(1.0, deadline - time.time()))
            except subprocess.TimeoutExpired:
                proc.kill()
                proc.communicate()
                problems.append(f"worker {shard} exceeded the {watchdog:.0f}s watchdog")
                continue
            if proc.returncode != 0 or not os.path.exists(out):
                tail = (err or b"").decode(errors="replace")[-800:]
                problems.append(f"worker {shard} died (exit {proc.returncode}): {tail}")
                continue
            with open(out, encoding="utf-8") as handle:
                result = json.load(handle)
            if result.get("status") != "ok":
                problems.append(f"worker {shard} crashed: {' | '.join(result.get('notes', []))[-1500:]}")
            results.append(result)

    merged = _merge(results)
    counters: Dict[str, int] = merged["counters"]

    # ---- classify violations against the committed known-findings file --------------------------------
    listed = findings.open_findings(prop)
    new_violations = [v for v in merged["violations"] if not (v.get("mechanism") and v["mechanism"] in listed)]
    suppressed = [v for v in merged["violations"] if v.get("mechanism") and v["mechanism"] in listed]

    exit_code = 0
    lines: List[str] = []
    replay_path: Optional[Path] = None
    if new_violations:
        REPLAY_DIR.mkdir(exist_ok=True)
        first = new_violations[0]
        digest = hashlib.sha1(json.dumps(first, sort_keys=True, default=str).encode()).hexdigest()[:10]
        replay_path = REPLAY_DIR / f"{prop}-{digest}.json"
        with open(replay_path, "w", encoding="utf-8") as handle:
            json.dump({"property": prop, "tier": tier, "seed": seed, "rule": first["rule"], "detail": first["detail"], "case": first["case"], "others": [v["rule"] for v in new_violations[1:20]]}, handle, indent=1, default=str)
        lines.append(f"VIOLATION property={prop} replay={replay_path}")
        lines.append(f"  rule={first['rule']} detail={json.dumps(first['detail'], default=str)[:600]}")
        exit_code = 1

    # known findings: one line per listed finding whose committed reproducer still fails in the listed way
    reproduced = {k["key"] for k in merged["known"] if k.get("reproduces")}
    for key, what in listed.items():
        if key in reproduced or any(v.get("mechanism") == key for v in suppressed):
            lines.append(f"KNOWN-FINDING: property={prop} {key} {what}")

    # ---- inconclusive? ---------------------------------------------------------------------------------
    reasons: List[str] = list(problems)
    for name, minimum in settings.get("minimums", {}).items():
        got = counters.get(name, len(merged["sets"].get(name, ())))
        if got < minimum:
            reasons.append(f"monitor count {name}={got} below the minimum {minimum}")
    for name, allowed in settings.get("required_tags", {}).items():
        have = merged["sets"].get(name, set())
        missing = [x for x in allowed if x not in have]
        if missing:
            reasons.append(f"coverage {name} never observed: {missing}")
    unobservable = counters.get("unobservable", 0)
    valid_cases = max(1, counters.get("valid_cases", counters.get("executions", 1)))
    if unobservable > 0.05 * valid_cases:
        reasons.append(f"{unobservable} of {valid_cases} valid cases were unobservable (> 5 %)")
    if exit_code == 0 and reasons:
        exit_code = 2
        lines.append(f"INCONCLUSIVE property={prop} reason={'; '.join(reasons)[:1500]}")

    # ---- evidence ---------------------------------------------------------------------------------------
    wall = time.time() - t0
    coverage = module.coverage(merged, tier) if hasattr(module, "coverage") else {}
    coverage.setdefault("evaluations", counters.get("executions", 0))
    coverage.setdefault("distinct_nontrivial", len(merged["sets"].get("nontrivial", ())))
    coverage.setdefault("rule", getattr(module, "RULE", ""))
    coverage.setdefault("samples", merged["samples"][:3] or ["(no sample recorded)"])
    coverage["counters"] = counters
    coverage["maxima"] = merged["maxima"]
    coverage["tags"] = {k: sorted(v) for k, v in merged["sets"].items() if k.startswith("tag_")}
    coverage["workers"] = nshards
    coverage["verdict"] = {0: "held-on-observed", 1: "violated", 2: "inconclusive"}[exit_code]
    coverage["known_findings_reproduced"] = sorted(reproduced | {v["mechanism"] for v in suppressed})
    if reasons:
        coverage["inconclusive_reasons"] = reasons
    evidence.write(
        prop,
        tier,
        seed,
        getattr(module, "LEVEL", "exploration"),
        coverage,
        getattr(module, "ASSUMPTIONS", []),
        wall,
        len(new_violations),
    )

    summary = (
        f"{prop} tier={tier} seed={seed} executions={counters.get('executions', 0)} "
        f"nontrivial={len(merged['sets'].get('nontrivial', ()))} violations={len(new_violations)} wall={wall:.1f}s"
    )
    print(summary)
    for line in lines:
        print(line)
    sys.stdout.flush()
    return exit_code


def run_replay(prop: str, path: str) -> int:
    prop = prop.upper()
    with scratch_dir(prefix=f"vp-{prop}-replay-") as scratch:
        out = os.path.join(scratch, "replay.json")
        proc = _spawn(prop, "quick", 0, 0, 1, 600, out, replay=os.path.abspath(path))
        _, err = proc.communicate(timeout=1800)
        if not os.path.exists(out):
            print(f"INCONCLUSIVE property={prop} reason=replay worker died: {(err or b'').decode(errors='replace')[-500:]}")
            return 2
        with open(out, encoding="utf-8") as handle:
            result = json.load(handle)
    if result.get("status") != "ok":
        print(f"INCONCLUSIVE property={prop} reason=replay crashed: {result.get('notes')}")
        return 2
    if result["violations"]:
        first = result["violations"][0]
        print(f"VIOLATION property={prop} replay={path}")
        print(f"  rule={first['rule']} detail={json.dumps(first['detail'], default=str)[:800]}")
        return 1
    print(f"{prop}: replay {path} no longer violates")
    return 0


def main(argv: Optional[List[str]] = None) -> int:
    parser = argparse.ArgumentParser(prog="python -m rpv")
    parser.add_argument("prop", help="property id, e.g. C01")
    parser.add_argument("--tier", choices=("quick", "thorough"), default=None)
    parser.add_argument("--seed", type=int, default=None)
    parser.add_argument("--workers", type=int, default=None)
    parser.add_argument("--budget", type=float, default=None, help="workload time box in seconds (per worker)")
    parser.add_argument("--replay", default="")
    args = parser.parse_args(argv)
    EVIDENCE_DIR.mkdir(exist_ok=True)
    if args.replay:
        return run_replay(args.prop, args.replay)
    tier = args.tier or tier_from_env()
    seed = args.seed if args.seed is not None else seed_from_env()
    return run_check(args.prop, tier, seed, args.workers, args.budget)
