"""Paths, environment and scratch handling shared by all checks."""

from __future__ import annotations

import contextlib
import os
import shutil
import sys
import tempfile
from pathlib import Path
from typing import Iterator

VERIF_ROOT: Path = Path(__file__).resolve().parent.parent
EVIDENCE_DIR: Path = Path(os.environ.get("RPV_EVIDENCE_DIR") or VERIF_ROOT / "evidence")
REPLAY_DIR: Path = Path(os.environ.get("RPV_REPLAY_DIR") or VERIF_ROOT / "replays")
KNOWN_FINDINGS: Path = VERIF_ROOT / "KNOWN_FINDINGS.txt"
MONITOR_DIR: Path = VERIF_ROOT / "rpv" / "monitors"

PYTHON: str = os.environ.get("RPV_PYTHON", "/venv/bin/python")
GUARD_ENV: str = "RP2_VERIF"


def rp2_src() -> str:
    """Directory that holds the `rp2` package under test (default: /repo's working tree)."""
    return os.environ.get("VP_RP2_SRC", "/repo/src")


def use_tree_under_test() -> None:
    """Make `import rp2` resolve to the tree under test, never to a stale copy."""
    src = rp2_src()
    if sys.path[0] != src:
        if src in sys.path:
            sys.path.remove(src)
        sys.path.insert(0, src)
    sys.dont_write_bytecode = True


def scratch_base() -> str:
    """Parent for scratch directories: outside /repo and /verif."""
    base = os.environ.get("RPV_SCRATCH", tempfile.gettempdir())
    return base


@contextlib.contextmanager
def scratch_dir(prefix: str = "vp-") -> Iterator[str]:
    path = tempfile.mkdtemp(prefix=prefix, dir=scratch_base())
    try:
        yield path
    finally:
        shutil.rmtree(path, ignore_errors=True)


def seed_from_env(default: int = 0) -> int:
    value = os.environ.get("VERIF_SEED", "")
    try:
        return int(value)
    except ValueError:
        return default


def tier_from_env(default: str = "quick") -> str:
    value = os.environ.get("VERIF_TIER", "")
    return value if value in ("quick", "thorough") else default


def ncpu() -> int:
    try:
        n = len(os.sched_getaffinity(0))
    except AttributeError:
        n = os.cpu_count() or 1
    limit = os.environ.get("RPV_WORKERS")
    if limit:
        try:
            n = max(1, min(n, int(limit)))
        except ValueError:
            pass
    return max(1, n)
