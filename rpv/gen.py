"""Seeded workload generators: transaction histories, schedules, windows.

A history is a plain, JSON-serialisable dict:

    {"asset": "AAA", "exchanges": [...], "holders": [...], "rows": [row, ...]}

Rows (decimals and timestamps are strings, exactly what would be typed in a spreadsheet cell):

    IN    {"t":"IN","row":7,"ts":"2020-01-01 00:00:00.000000 +0000","ex","ho","type":"BUY","spot","cin",
           "cfee":None,"fin_nf":None,"fin_wf":None,"ffee":None,"uid","notes"}
    OUT   {"t":"OUT","row","ts","ex","ho","type":"SELL","spot","cout","cfee","cout_wf":None,"fout_nf":None,"ffee":None,"uid","notes"}
    INTRA {"t":"INTRA","row","ts","fex","fho","tex","tho","spot":(str|None),"sent","recv","uid","notes"}

"valid" = every account's balance stays >= 0 at every instant under every ordering of same-instant rows
(debits of an instant are only funded by the balance before the instant plus the instant's IN credits).
"""

from __future__ import annotations

import random
from datetime import datetime, timedelta, timezone
from decimal import ROUND_DOWN, Decimal
from typing import Any, Dict, List, Optional, Sequence, Tuple

EARN_TYPES: Tuple[str, ...] = ("AIRDROP", "HARDFORK", "INCOME", "INTEREST", "MINING", "STAKING", "WAGES")
ACQ_TYPES: Tuple[str, ...] = ("BUY", "GIFT", "DONATE")
OUT_TYPES: Tuple[str, ...] = ("SELL", "GIFT", "DONATE", "FEE", "LOST", "STAKING")
ALL_IN_TYPES: Tuple[str, ...] = ACQ_TYPES + EARN_TYPES
METHODS: Tuple[str, ...] = ("fifo", "lifo", "hifo", "lofo")

EXCHANGES: Tuple[str, ...] = ("Coinbase", "Coinbase_Pro", "@Block Fi #2", "L\u00e9dger ;cold")  # names with a space (the documentation's own example is "Coinbase Pro"), " #" / " ;" (comment characters elsewhere in ini files), a leading @, non-ASCII letters
HOLDERS: Tuple[str, ...] = ("Pro_Bob", "Bob")  # with the exchanges above two different accounts share the join "Coinbase_Pro_Bob" (RP2 sorts balances by "<exchange>_<holder>")
ASSETS: Tuple[str, ...] = ("AAA", "BBB", "CCC")

# UTC offsets in minutes: -12, -9:30, -8, -3:30, 0, +5:30, +5:45, +9, +14 (negative offsets with non-zero minutes included)
OFFSETS: Tuple[int, ...] = (-720, -570, -480, -210, 0, 330, 345, 540, 840)

Q11 = Decimal("0.00000000001")
TS_FORMAT = "%Y-%m-%d %H:%M:%S.%f %z"


def dstr(value: Decimal) -> str:
    """Plain (non-scientific) decimal string without trailing zeros."""
    text = format(value, "f")
    if "." in text:
        text = text.rstrip("0").rstrip(".")
    return text if text not in ("", "-0") else "0"


def q11(value: Decimal) -> Decimal:
    return value.quantize(Q11, rounding=ROUND_DOWN)


def fmt_ts(instant: datetime, offset_min: int) -> str:
    tz = timezone(timedelta(minutes=offset_min))
    return instant.astimezone(tz).strftime(TS_FORMAT)


def parse_ts(text: str) -> datetime:
    return datetime.strptime(text, TS_FORMAT)


def render_ts(text: str) -> str:
    """The same instant and UTC offset as the canonical text, written the way different exchanges export timestamps: the
    canonical form, strict ISO 8601 with T and a colon in the offset, Z for UTC, no fractional part when it is zero. The
    style is a function of the text (replayable)."""
    import zlib

    moment = parse_ts(text)
    style = zlib.crc32(text.encode()) % 6
    if style == 0:
        return text
    if style == 5:
        # numeric month/day/year as US exports write it; a day above 12 can only be read one way, so such a date is written
        # day first now and then (dateutil, which RP2 documents as its reader, takes either)
        date_part = moment.strftime("%m/%d/%Y")
        if moment.day > 12 and zlib.crc32(text[::-1].encode()) % 2:
            date_part = moment.strftime("%d/%m/%Y")
        return date_part + moment.strftime(" %H:%M:%S.%f %z")
    if style == 1:
        return moment.isoformat()  # 2020-01-01T10:00:00.000001-03:30 (no space before the offset)
    if style == 2:
        iso = moment.isoformat()
        return iso[:-6] + "Z" if moment.utcoffset() == timedelta(0) else iso
    if style == 3:
        return moment.strftime("%Y-%m-%d %H:%M:%S.%f%z") if moment.microsecond else moment.strftime("%Y-%m-%d %H:%M:%S %z")
    offset = moment.strftime("%z")
    return moment.strftime("%Y-%m-%dT%H:%M:%S.%f ") + offset[:3] + ":" + offset[3:]


class Profile:
    """Knobs of the history generator (all have defaults; hostile families override some)."""

    def __init__(self, **kw: Any) -> None:
        self.min_events: int = 2
        self.max_events: int = 14
        self.n_exchanges: int = 2
        self.n_holders: int = 1
        self.tie_prob: float = 0.15
        self.mixed_tz: bool = False
        self.amount_style: str = "mixed"  # small | dec11 | dust | huge | mixed
        self.price_style: str = "mixed"  # equal | small | wide | mixed
        self.p_in: float = 0.45
        self.p_out: float = 0.35
        self.p_intra: float = 0.20
        self.p_earn: float = 0.35  # probability that an IN row is earn-typed
        self.p_optional_fiat: float = 0.2
        self.p_inconsistent_fiat: float = 0.5  # given an optional fiat value, probability that it differs from amount*price
        self.p_in_fiat_fee: float = 0.25
        self.p_out_crypto_fee: float = 0.35
        self.p_intra_fee: float = 0.6
        self.p_self_transfer: float = 0.05
        self.in_types: Sequence[str] = ALL_IN_TYPES
        self.out_types: Sequence[str] = OUT_TYPES
        self.start_year_range: Tuple[int, int] = (2015, 2022)
        self.gap_style: str = "mixed"  # short | long | mixed | boundary
        self.shuffle_rows: bool = True
        self.allow_in_crypto_fee: bool = False  # only meaningful through the parser (CLI / parse_ods)
        self.single_year_ties: bool = True  # same-instant groups share one own-timestamp year (keeps KF5 out)
        self.min_transfer_fee_fiat: Decimal = Decimal("0.000000001")  # keep KF4 region out of general workloads
        self.p_rounded_out_total: float = 0.0  # given crypto_out_with_fee, probability that it is the exchange's rounded total
        self.max_sig_digits: int = 0  # 0 = unlimited; 15 for values that go through spreadsheet doubles
        for key, value in kw.items():
            if not hasattr(self, key):
                raise AttributeError(f"unknown profile knob {key}")
            setattr(self, key, value)


def _limit_sig(value: Decimal, max_sig: int) -> Decimal:
    """Round down so that the value has at most max_sig significant digits (and <= 11 decimals)."""
    value = q11(value)
    if max_sig <= 0 or value == 0:
        return value
    digits = len(value.as_tuple().digits)
    exponent = value.as_tuple().exponent
    assert isinstance(exponent, int)
    if digits <= max_sig:
        return value
    drop = digits - max_sig
    quantum = Decimal(1).scaleb(exponent + drop)
    return value.quantize(quantum, rounding=ROUND_DOWN)


def rand_amount(rng: random.Random, style: str, max_sig: int = 0) -> Decimal:
    if style == "mixed":
        style = rng.choice(("small", "small", "dec11", "dec11", "dust", "huge", "round"))
    if style == "small":
        value = Decimal(rng.randint(1, 40)) / rng.choice((1, 1, 2, 4, 10, 100))
    elif style == "round":
        value = Decimal(rng.randint(1, 9)) * (Decimal(10) ** rng.randint(-3, 3))
    elif style == "dec11":
        value = Decimal(rng.randint(1, 10**rng.randint(3, 13))) / Decimal(10**11)
        value *= rng.choice((1, 1, 1000, 100000))
    elif style == "dust":
        value = Decimal(rng.randint(1, 2000)) / Decimal(10**11)
    elif style == "huge":
        value = Decimal(rng.randint(1, 10**9)) + Decimal(rng.randint(0, 10**6)) / Decimal(10**6)
    elif style == "cli":
        # <= 1e4 with <= 7 decimals: fraction amounts written as doubles can be snapped back to their exact value
        value = Decimal(rng.randint(1, 10**7)) / Decimal(10 ** rng.randint(3, 7))
        if rng.random() < 0.3:
            value = Decimal(rng.randint(1, 30))
    else:
        raise ValueError(style)
    value = _limit_sig(value, max_sig)
    if value <= 0:
        value = Q11
    return value


_EQUAL_PRICES = (Decimal("100"), Decimal("100"), Decimal("250.5"), Decimal("100"), Decimal("99.99"))


def rand_price(rng: random.Random, style: str, max_sig: int = 0) -> Decimal:
    if style == "mixed":
        style = rng.choice(("equal", "small", "small", "wide", "digits"))
    if style == "digits":
        value = Decimal(rng.randint(1, 10**15)) / Decimal(10**11)  # up to 15 significant digits, 11 decimals
    elif style == "equal":
        value = rng.choice(_EQUAL_PRICES)
    elif style == "small":
        value = Decimal(rng.randint(1, 100000)) / rng.choice((1, 10, 100))
    elif style == "wide":
        exp = rng.randint(-8, 6)
        value = Decimal(rng.randint(1, 9999)) * (Decimal(10) ** exp) / Decimal(1000) * Decimal(10)
        value = min(max(value, Decimal("0.00000001")), Decimal("10000000"))
    else:
        raise ValueError(style)
    value = _limit_sig(value, max_sig)
    if value <= 0:
        value = Decimal("0.00000001")
    return value


def _year_end(year: int) -> datetime:
    return datetime(year, 12, 31, 23, 59, 59, 999999, tzinfo=timezone.utc)


def next_instant(rng: random.Random, current: datetime, style: str, offset: int = 0) -> datetime:
    """Pick the next instant strictly after `current` (`offset`: minutes east of UTC the history is written in, for the styles
    that land on a wall-clock midnight)."""
    if style == "mixed":
        style = rng.choice(("short", "short", "long", "boundary", "medium", "midnight"))
    if style in ("midnight", "days"):
        # date-only exports: exactly 00:00:00.000000 on the wall clock, one or more days later
        zone = timezone(timedelta(minutes=offset))
        local = current.astimezone(zone)
        days = rng.choice((1, 1, 2, 7, 30, 364, 365, 366, rng.randint(1, 400))) if style == "days" else rng.choice((1, 1, 2, rng.randint(1, 60)))
        target = datetime.combine(local.date() + timedelta(days=days), datetime.min.time(), tzinfo=zone)
        return target.astimezone(timezone.utc)
    if style == "short":
        delta = rng.choice(
            (
                timedelta(microseconds=1),
                timedelta(seconds=1),
                timedelta(seconds=rng.randint(2, 3600)),
                timedelta(hours=rng.randint(1, 30)),
                timedelta(days=1),
                timedelta(days=rng.randint(1, 20), seconds=rng.randint(0, 86399)),
            )
        )
    elif style == "medium":
        delta = timedelta(days=rng.randint(20, 200), seconds=rng.randint(0, 86399), microseconds=rng.choice((0, 0, rng.randint(1, 999999))))
    elif style == "long":
        delta = timedelta(days=rng.choice((364, 365, 366, 367, 730, rng.randint(200, 900))), seconds=rng.choice((0, 1, -1, rng.randint(-43200, 43200))))
        if delta <= timedelta(0):
            delta = timedelta(days=365)
    elif style == "boundary":
        # land on or right next to a year end (UTC), so that non-UTC offsets give a different own-timestamp year
        end = _year_end(current.year)
        target = end + rng.choice(
            (
                timedelta(0),
                timedelta(microseconds=1),
                timedelta(hours=rng.randint(-13, 13)),
                timedelta(seconds=rng.randint(-5, 5)),
            )
        )
        if target <= current:
            target = _year_end(current.year + 1) + timedelta(microseconds=rng.choice((0, 1)))
        return target
    else:
        raise ValueError(style)
    return current + delta


class _Sim:
    """Balance bookkeeping that enforces validity under every ordering of same-instant rows."""

    def __init__(self) -> None:
        self.balance: Dict[Tuple[str, str], Decimal] = {}
        # balance usable for debits inside the current same-instant group
        self.group_avail: Dict[Tuple[str, str], Decimal] = {}

    def new_instant(self) -> None:
        self.group_avail = dict(self.balance)

    def avail(self, account: Tuple[str, str]) -> Decimal:
        return self.group_avail.get(account, Decimal(0))

    def credit_in(self, account: Tuple[str, str], amount: Decimal) -> None:
        self.balance[account] = self.balance.get(account, Decimal(0)) + amount
        self.group_avail[account] = self.group_avail.get(account, Decimal(0)) + amount

    def credit_transfer(self, account: Tuple[str, str], amount: Decimal) -> None:
        # usable only from the next instant on
        self.balance[account] = self.balance.get(account, Decimal(0)) + amount

    def debit(self, account: Tuple[str, str], amount: Decimal) -> None:
        self.balance[account] = self.balance.get(account, Decimal(0)) - amount
        self.group_avail[account] = self.group_avail.get(account, Decimal(0)) - amount
        assert self.group_avail[account] >= 0, (account, amount)


def _portion(rng: random.Random, avail: Decimal, lots: List[Decimal], max_sig: int) -> Decimal:
    """Amount to take out of `avail` (> 0): whole, halves, thirds, dust, a lot's exact size, random part."""
    choice = rng.random()
    if choice < 0.18:
        value = avail
    elif choice < 0.30:
        value = q11(avail / 2)
    elif choice < 0.42:
        value = q11(avail / rng.choice((3, 7)))
    elif choice < 0.50:
        value = Q11 * rng.randint(1, 50)
    elif choice < 0.65 and lots:
        # exactly one lot, or the first k lots: drives the == branch of the matcher
        k = rng.randint(1, min(3, len(lots)))
        start = rng.randint(0, len(lots) - k)
        value = sum(lots[start : start + k], Decimal(0))
    else:
        value = q11(avail * Decimal(rng.randint(1, 999)) / Decimal(1000))
    value = _limit_sig(value, max_sig)
    if value <= 0:
        value = min(avail, Q11)
    if value > avail:
        value = avail
    return value


def history(rng: random.Random, profile: Optional[Profile] = None, asset: str = "AAA") -> Dict[str, Any]:
    """One asset's valid history."""
    p = profile or Profile()
    exchanges = list(EXCHANGES[: max(1, p.n_exchanges)])
    holders = list(HOLDERS[: max(1, p.n_holders)])
    accounts = [(e, h) for e in exchanges for h in holders]
    n_events = rng.randint(p.min_events, p.max_events)
    sim = _Sim()
    lots: List[Decimal] = []
    rows: List[Dict[str, Any]] = []
    base_offset = rng.choice(OFFSETS) if not p.mixed_tz else 0

    year = rng.randint(*p.start_year_range)
    instant = datetime(year, rng.randint(1, 12), rng.randint(1, 28), rng.randint(0, 23), rng.randint(0, 59), rng.randint(0, 59), tzinfo=timezone.utc)
    if rng.random() < 0.3:
        instant = instant.replace(microsecond=rng.randint(1, 999999))
    gap_style = p.gap_style
    if gap_style == "mixed" and rng.random() < 0.08:
        # a day-granular export: every row at 00:00:00.000000 of its day (rows of one day share an instant)
        gap_style = "days"
        zone = timezone(timedelta(minutes=base_offset))
        instant = datetime.combine(instant.astimezone(zone).date(), datetime.min.time(), tzinfo=zone).astimezone(timezone.utc)
    sim.new_instant()
    group_offset_year: Optional[int] = None
    counters = {"IN": 0, "OUT": 0, "INTRA": 0}

    def pick_offset(inst: datetime) -> int:
        nonlocal group_offset_year
        if not p.mixed_tz:
            return base_offset
        for _ in range(20):
            off = rng.choice(OFFSETS)
            own_year = inst.astimezone(timezone(timedelta(minutes=off))).year
            if not p.single_year_ties or group_offset_year is None or own_year == group_offset_year:
                if group_offset_year is None:
                    group_offset_year = own_year
                return off
        return 0 if group_offset_year is None or inst.year == group_offset_year else base_offset

    for index in range(n_events):
        if index > 0:
            if rng.random() < p.tie_prob:
                pass  # same instant as previous row
            else:
                instant = next_instant(rng, instant, gap_style, base_offset)
                sim.new_instant()
                group_offset_year = None
        offset = pick_offset(instant)
        ts = fmt_ts(instant, offset)

        funded = [a for a in accounts if sim.avail(a) > 0]
        r = rng.random()
        if not funded or not rows:
            kind = "IN"
        elif r < p.p_in:
            kind = "IN"
        elif r < p.p_in + p.p_out:
            kind = "OUT"
        else:
            kind = "INTRA" if p.p_intra > 0 else "OUT"
        counters[kind] += 1
        uid = f"{asset}-{kind}-{counters[kind]}"

        if kind == "IN":
            account = rng.choice(accounts)
            earn = rng.random() < p.p_earn
            candidates = [t for t in p.in_types if (t in EARN_TYPES) == earn] or list(p.in_types)
            ttype = rng.choice(candidates)
            earn = ttype in EARN_TYPES
            amount = rand_amount(rng, p.amount_style, p.max_sig_digits)
            spot = rand_price(rng, p.price_style, p.max_sig_digits)
            if lots and rng.random() < 0.1:
                # a recurring order: the same amount as the previous acquisition, and now and then the same price as well
                amount = lots[-1]
                previous_in = next((r for r in reversed(rows) if r["t"] == "IN"), None)
                if previous_in is not None and rng.random() < 0.4:
                    spot = Decimal(previous_in["spot"])
            row: Dict[str, Any] = {
                "t": "IN",
                "ts": ts,
                "ex": account[0],
                "ho": account[1],
                "type": ttype,
                "spot": dstr(spot),
                "cin": dstr(amount),
                "cfee": None,
                "fin_nf": None,
                "fin_wf": None,
                "ffee": None,
                "uid": uid,
                "notes": "",
            }
            if not earn:
                # (an acquisition worth less than RP2's 13-decimal resolution cannot carry a crypto fee: the parser re-creates it
                # with an explicit fiat value, which is then "zero")
                if p.allow_in_crypto_fee and rng.random() < 0.3 and amount * spot >= p.min_transfer_fee_fiat:
                    row["cfee"] = dstr(_limit_sig(max(Q11, q11(amount / rng.choice((50, 100, 1000)))), p.max_sig_digits))
                elif rng.random() < p.p_in_fiat_fee:
                    row["ffee"] = dstr(_limit_sig(q11(amount * spot / rng.choice((20, 100, 333))) + Decimal("0.01"), p.max_sig_digits))
                elif p.allow_in_crypto_fee and rng.random() < 0.15:
                    row["cfee"] = "0"  # an explicit crypto fee of zero in the cell (as in the shipped test_data4.ods): no fee, no artificial fee row
                elif p.allow_in_crypto_fee and rng.random() < 0.08:
                    row["ffee"] = "0"  # an explicit fiat fee of zero
            if earn:
                # income paid net of a fee (a staking commission, a mining pool's cut): the fee is part of the income's value
                if p.allow_in_crypto_fee and rng.random() < 0.15 and amount * spot >= p.min_transfer_fee_fiat:
                    row["cfee"] = dstr(_limit_sig(max(Q11, q11(amount / rng.choice((20, 100, 1000)))), p.max_sig_digits))
                elif rng.random() < p.p_in_fiat_fee / 3:
                    row["ffee"] = dstr(_limit_sig(q11(amount * spot / rng.choice((20, 100, 333))) + Decimal("0.01"), p.max_sig_digits))
            if rng.random() < p.p_optional_fiat:
                value = amount * spot
                if rng.random() < p.p_inconsistent_fiat:
                    value = value * Decimal(rng.choice(("1.01", "0.97", "1.5"))) + Decimal("0.01")
                value = _limit_sig(value, p.max_sig_digits)
                if value > 0:
                    row["fin_nf"] = dstr(value)
            if not earn and rng.random() < p.p_optional_fiat / 2:
                base = Decimal(row["fin_nf"]) if row["fin_nf"] else amount * spot
                fee = Decimal(row["ffee"]) if row["ffee"] else (Decimal(row["cfee"]) * spot if row["cfee"] else Decimal(0))
                value = base + fee
                if rng.random() < p.p_inconsistent_fiat:
                    extra = rng.choice(("0.5", "3", "0.01", "no-fee"))
                    # "no-fee": the export repeats the fee-less value in the with-fee column although a fee is given (supplied values win)
                    value = base if extra == "no-fee" else value + Decimal(extra)
                value = _limit_sig(value, p.max_sig_digits)
                if value > 0:
                    row["fin_wf"] = dstr(value)
            sim.credit_in(account, amount)
            if row["cfee"] and Decimal(row["cfee"]) > 0:
                # the crypto fee of an acquisition leaves the account again at the same instant (artificial fee-only disposal)
                sim.debit(account, Decimal(row["cfee"]))
            lots.append(amount)
            rows.append(row)
        elif kind == "OUT":
            account = rng.choice(funded)
            avail = sim.avail(account)
            ttype = rng.choice(list(p.out_types))
            spot = rand_price(rng, p.price_style, p.max_sig_digits)
            total = _portion(rng, avail, lots, p.max_sig_digits)
            if ttype == "FEE" and rng.random() < 0.04:
                spot = Decimal(0)  # a fee the export values at nothing: the one out-transaction type that needs no spot price
            if ttype == "FEE":
                cout, cfee = Decimal(0), total
            else:
                cfee = Decimal(0)
                if rng.random() < p.p_out_crypto_fee and total > Q11:
                    cfee = _limit_sig(max(Q11, q11(total / rng.choice((10, 100, 1000)))), p.max_sig_digits)
                    if cfee >= total:
                        cfee = Decimal(0)
                cout = total - cfee
            row = {
                "t": "OUT",
                "ts": ts,
                "ex": account[0],
                "ho": account[1],
                "type": ttype,
                "spot": dstr(spot),
                "cout": dstr(cout),
                "cfee": dstr(cfee),
                "cout_wf": None,
                "fout_nf": None,
                "ffee": None,
                "uid": uid,
                "notes": "",
            }
            if rng.random() < p.p_optional_fiat / 2:
                out_total = cout + cfee
                if p.p_rounded_out_total and rng.random() < p.p_rounded_out_total:
                    # the exchange's own total, rounded down to 8 or 4 decimals: supplied values win (it is what leaves the lots)
                    rounded = out_total.quantize(Decimal(rng.choice(("0.00000001", "0.0001"))), rounding=ROUND_DOWN)
                    if rounded > 0:
                        out_total = rounded
                row["cout_wf"] = dstr(out_total)
            if ttype != "FEE" and rng.random() < p.p_optional_fiat:
                value = cout * spot
                if rng.random() < p.p_inconsistent_fiat:
                    factor = rng.choice(("1.02", "0.9", "gross"))
                    # "gross": the export puts the value of amount + fee in the fee-less column (supplied values win)
                    value = (cout + cfee) * spot if factor == "gross" else value * Decimal(factor) + Decimal("0.01")
                value = _limit_sig(value, p.max_sig_digits)
                if value > 0:
                    row["fout_nf"] = dstr(value)
            elif ttype == "FEE" and rng.random() < p.p_optional_fiat / 4:
                # the export fills the "value" column of a fee-only row as well (it plays no role: the fee is the taxable value)
                row["fout_nf"] = dstr(_limit_sig(q11(cfee * spot) + Decimal(rng.choice(("0.01", "7", "63"))), p.max_sig_digits))
            if cfee == 0 and ttype != "FEE" and rng.random() < p.p_optional_fiat / 3:
                row["ffee"] = dstr(_limit_sig(q11(cout * spot / rng.choice((50, 200, 1000))) + Decimal("0.01"), p.max_sig_digits))  # a fee charged in fiat only
            if cfee > 0 and rng.random() < p.p_optional_fiat:
                value = cfee * spot
                if rng.random() < p.p_inconsistent_fiat:
                    value = value * Decimal("1.1") + Decimal("0.01")
                row["ffee"] = dstr(_limit_sig(value, p.max_sig_digits))
            elif cfee > 0 and p.allow_in_crypto_fee and rng.random() < 0.06:
                row["ffee"] = "0"  # the exchange reported the fee's value as 0.00: an explicit zero is a supplied value
            sim.debit(account, cout + cfee)
            rows.append(row)
        else:
            account = rng.choice(funded)
            avail = sim.avail(account)
            if rng.random() < p.p_self_transfer:
                target = account
            else:
                others = [a for a in accounts if a != account]
                target = rng.choice(others) if others else account
            sent = _portion(rng, avail, lots, p.max_sig_digits)
            spot_d = rand_price(rng, p.price_style, p.max_sig_digits)
            fee = Decimal(0)
            if rng.random() < p.p_intra_fee and sent > Q11:
                fee = _limit_sig(max(Q11, q11(sent / rng.choice((10, 100, 1000, 100000)))), p.max_sig_digits)
                if rng.random() < 0.1:
                    fee = Q11 * rng.randint(1, 50)  # a dust fee whatever the size of the transfer
                if fee >= sent:
                    fee = Decimal(0)
                elif rng.random() < 0.04:
                    fee = sent  # the whole amount went to the fee: nothing is received (the destination account is touched with zeros)
                # keep the fiat value of the fee out of the KF4 region
                if fee > 0 and fee * spot_d < p.min_transfer_fee_fiat:
                    fee = Decimal(0)
            spot_text: Optional[str] = dstr(spot_d)
            if fee == 0 and rng.random() < 0.3:
                spot_text = None
            row = {
                "t": "INTRA",
                "ts": ts,
                "fex": account[0],
                "fho": account[1],
                "tex": target[0],
                "tho": target[1],
                "spot": spot_text,
                "sent": dstr(sent),
                "recv": dstr(sent - fee),
                "uid": uid,
                "notes": "",
            }
            sim.debit(account, sent)
            sim.credit_transfer(target, sent - fee)
            rows.append(row)

    assign_rows(rng, rows, shuffle=p.shuffle_rows)
    return {"asset": asset, "exchanges": exchanges, "holders": holders, "rows": rows}


def assign_rows(rng: random.Random, rows: List[Dict[str, Any]], shuffle: bool = True, start: int = 3) -> None:
    """Give every row a spreadsheet-like row number: tables IN, OUT, INTRA one after another (header lines skipped).

    With shuffle, rows inside a table are not in time order (sheet order != time order). Validity does not depend on
    the order of same-instant rows (see module docstring), so any permutation keeps a valid history valid.
    """
    next_row = start
    for table in ("IN", "OUT", "INTRA"):
        table_rows = [r for r in rows if r["t"] == table]
        order = list(range(len(table_rows)))
        if shuffle and len(order) > 1 and rng.random() < 0.7:
            rng.shuffle(order)
        for position in order:
            table_rows[position]["row"] = next_row
            next_row += 1
        next_row += 4  # TABLE END, blank, table keyword, header


def schedule(rng: random.Random, first_year: int, last_year: int, max_entries: int = 4) -> Dict[int, str]:
    """Year -> method schedule whose first year is <= the first event year."""
    n = rng.randint(1, max_entries)
    start = rng.choice((1970, first_year, first_year - 1, first_year - rng.randint(0, 3)))
    start = max(1970, min(start, first_year))
    years = {start}
    span = list(range(first_year + 1, max(last_year, first_year) + 2))
    while len(years) < n and span:
        years.add(rng.choice(span))
        if len(years) >= len(span) + 1:
            break
    return {y: rng.choice(METHODS) for y in sorted(years)}


def own_years(hist: Dict[str, Any]) -> List[int]:
    return sorted({parse_ts(r["ts"]).year for r in hist["rows"]})


def own_dates(hist: Dict[str, Any]) -> List[Any]:
    return sorted({parse_ts(r["ts"]).date() for r in hist["rows"]})
