"""Worker entry point: `python -m rpv.worker <prop> --tier .. --seed .. --shard i --nshards n --budget s --out file`."""

import sys

from rpv.runner import worker_main

if __name__ == "__main__":
    sys.exit(worker_main(sys.argv[1:]))
