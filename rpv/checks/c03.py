"""C03 - exactly the taxable transactions are taxed, each once and in full.

Exactly-once / no-loss checker between producer rows (the input) and consumer events (ComputedData.taxable_event_set
and the fraction trace) of real compute_tax runs.
"""

from __future__ import annotations

from decimal import Decimal
from typing import Any, Dict, List

from rpv import families
from rpv.checks.inproc_util import get_ip, sched_from_json, sched_json
from rpv.gen import ALL_IN_TYPES, METHODS, OUT_TYPES, Profile, history
from rpv.model import Model
from rpv.workload import deepen
from rpv.oracle.balance import is_valid
from rpv.oracle.trace import check_taxable

PROPERTY_ID = "C03"
LEVEL = "exploration"
RULE = (
    "valid generated histories over all 14 transaction types and the three tables (same-instant mixes of earn rows, "
    "disposals and transfers; fee-less, fee-bearing and self transfers) x methods; the taxable set and the fractions of "
    "each run are compared with the input rows by unique row id. Non-trivial = history containing at least one earn row, "
    "one out row and one transfer; distinct = hash of the history. CLI slice: sheets in which a row is repeated verbatim right below itself "
    "(every cell, unique id and notes included: two transactions, both taxed). "
    "The repository's own example inputs (input/*.ods read independently of RP2's parser, every method and the config's schedule, -n) are part of the workload"
)
ASSUMPTIONS = [
    "in general workloads a non-zero transfer fee is worth >= 1e-9 fiat (below 5e-14 is known finding KF4, exercised by its directed probe only)",
    "earn-typed rows carry no fee (the fiat value of an income row with a fee is not defined by the statement)",
]
ALL_TYPES = sorted(set(ALL_IN_TYPES) | {f"OUT:{t}" for t in OUT_TYPES} | {"MOVE:fee", "MOVE:no-fee", "MOVE:self"})
SETTINGS: Dict[str, Dict[str, Any]] = {
    "quick": {"cases": 3000, "cli_cases": 64, "budget_s": 45, "minimums": {"corpus_runs": 100, "window_runs": 1000, "events_checked": 8000, "nontrivial": 500, "cli_runs": 6, "cli_sheets_with_a_row_repeated_verbatim": 8}, "required_tags": {"tag_types": ALL_TYPES}},
    "thorough": {"cases": 100000, "cli_cases": 200, "budget_s": 300, "minimums": {"corpus_runs": 100, "events_checked": 180000, "nontrivial": 12000, "cli_runs": 60, "cli_sheets_with_a_row_repeated_verbatim": 12}, "required_tags": {"tag_types": ALL_TYPES}},
}

PROFILES = [
    Profile(p_in=0.4, p_out=0.35, p_intra=0.25, p_earn=0.5, n_exchanges=2, n_holders=2, p_self_transfer=0.15),
    Profile(p_in=0.4, p_out=0.3, p_intra=0.3, p_earn=0.5, tie_prob=0.5, mixed_tz=True, p_self_transfer=0.1),
    Profile(p_in=0.45, p_out=0.35, p_intra=0.2, p_earn=0.4, max_events=24, n_exchanges=3),
]


def _observe(ctx: Any, ip: Any, hist: Dict[str, Any], sched: Dict[int, str], probe: bool = False) -> bool:
    from rpv.drive_inproc import trace_of

    model = Model(hist)
    res = ip.run(hist, sched)
    ctx.count("executions")
    ctx.count("valid_cases")
    case = {"hist": hist, "schedule": sched_json(sched)}
    if not res.ok:
        ctx.count("unobservable")
        ctx.tag("tag_unobservable", res.error[:80])
        return False
    trace = trace_of(res.computed)
    ids: List[int] = []
    types: Dict[int, str] = {}
    for t in res.computed.taxable_event_set:
        ids.append(t.row)
        types[t.row] = t.transaction_type.value.upper()
    violations, known = check_taxable(model, ids, types, trace)
    ctx.count("events_checked", len(model.events))
    ctx.count("non_taxable_rows_checked", len(model.rows) - len(model.events))
    for r in hist["rows"]:
        if r["t"] == "IN":
            ctx.tag("tag_types", r["type"])
        elif r["t"] == "OUT":
            ctx.tag("tag_types", f"OUT:{r['type']}")
        else:
            self_transfer = (r["fex"], r["fho"]) == (r["tex"], r["tho"])
            ctx.tag("tag_types", "MOVE:self" if self_transfer else ("MOVE:fee" if r["sent"] != r["recv"] else "MOVE:no-fee"))
    tables = {r["t"] for r in hist["rows"]}
    has_earn = any(e.earn for e in model.events.values())
    if has_earn and tables == {"IN", "OUT", "INTRA"}:
        ctx.distinct("nontrivial", hist)
        ctx.sample({"rows": hist["rows"][:8], "n_rows": len(hist["rows"]), "taxable_ids": ids[:12]})
    for v in violations:
        ctx.violation(v["rule"], v["detail"], case)
    for k in known:
        ctx.violation(k["rule"], k["detail"], case, mechanism="KF4")
    if not probe:
        _observe_window(ctx, ip, hist, sched, model, types)
    return bool(known)


def _observe_window(ctx: Any, ip: Any, hist: Dict[str, Any], sched: Dict[int, str], model: Model, types: Dict[int, str]) -> None:
    """The same history seen through a date window: the taxable events reported are exactly those whose own date lies in it
    (none dropped, none duplicated, none under another type)."""
    import random as _random
    from datetime import date as _date

    from rpv.checks.inproc_util import candidate_days, clean_cut

    rng = _random.Random(len(hist["rows"]) * 7919 + sum(r["row"] for r in hist["rows"]))
    days = sorted(candidate_days(rng, hist, 6))
    clean = [d for d in days if clean_cut(hist, d)]
    if not days or not clean:
        return
    to_d = rng.choice(clean) if rng.random() < 0.7 else None
    lower = [d for d in days if to_d is None or d <= to_d]
    from_d = rng.choice(lower) if lower and rng.random() < 0.8 else None
    if from_d is None and to_d is None:
        return
    res = ip.run(hist, sched, from_date=from_d, to_date=to_d)
    ctx.count("executions")
    if not res.ok:
        ctx.count("window_runs_unobservable")
        return
    lo, hi = from_d or _date(1970, 1, 1), to_d or _date(9999, 12, 31)
    expected = sorted(row for row, e in model.events.items() if lo <= e.ts.date() <= hi and row not in model.tiny_fee_transfers)
    got = sorted(t.row for t in res.computed.taxable_event_set if t.row not in model.tiny_fee_transfers)
    ctx.count("window_runs")
    ctx.count("window_events_checked", len(expected))
    if got != expected:
        ctx.violation("taxable.window-events", {"window": [str(from_d), str(to_d)], "missing": [r for r in expected if r not in got][:5], "unexpected": [r for r in got if r not in expected][:5], "duplicates": len(got) != len(set(got))}, {"hist": hist, "schedule": sched_json(sched), "window": [from_d.isoformat() if from_d else None, to_d.isoformat() if to_d else None]})
    wrong_type = [t.row for t in res.computed.taxable_event_set if types.get(t.row) and t.transaction_type.value.upper() != types[t.row]]
    if wrong_type:
        ctx.violation("taxable.window-type-differs", {"events": wrong_type[:5]}, {"hist": hist, "schedule": sched_json(sched)})


def kf4_reproducer() -> Dict[str, Any]:
    b = families.HB()
    b.acquire(families.T(2020, 1, 1), 10, 100)
    # fee 1e-11 at price 0.004: worth 4e-14 fiat, below RP2's 13-decimal comparison
    b.move(families.T(2020, 2, 1), "1", "0.99999999999", "0.004", (b.exchanges[0], b.holders[0]), (b.exchanges[1], b.holders[0]))
    b.dispose(families.T(2020, 3, 1), 1, 120)
    return b.done()


def run_shard(ctx: Any) -> None:
    from rpv.checks import corpus_slice

    corpus_slice.run(ctx, PROPERTY_ID)  # the repository's own example inputs, every method and the config's schedule
    ip = get_ip(ctx)
    settings = SETTINGS[ctx.tier]
    share = ctx.share(settings["cases"])
    index = ctx.shard
    done = 0
    while done < share and (ctx.budget_s - ctx.time_left()) < ctx.budget_s * 0.75:
        rng = ctx.rng("case", index)
        hist = history(rng, deepen(ctx, index, PROFILES[index % len(PROFILES)]))
        if is_valid(Model(hist)):
            _observe(ctx, ip, hist, {1970: rng.choice(METHODS)})
        else:
            ctx.count("generated_invalid")
        index += ctx.nshards
        done += 1
    ctx.count("inputs", done)
    if ctx.shard == 0:
        before = len(ctx.violations)
        reproduced = _observe(ctx, ip, kf4_reproducer(), {1970: "fifo"})
        # the probe's KF4-labelled record is reported through known_finding, not as a violation
        ctx.violations[:] = [v for i, v in enumerate(ctx.violations) if i < before or v.get("mechanism") != "KF4"]
        ctx.known_finding("KF4", reproduced, "transfer whose fee is worth < 5e-14 fiat is not a taxable event")
    try:
        from rpv.checks import cli_slices
    except ImportError:
        return
    cli_slices.c03(ctx, settings["cli_cases"])


def replay(ctx: Any, case: Dict[str, Any]) -> None:
    if case.get("corpus"):
        from rpv.checks import corpus_slice

        corpus_slice.replay(ctx, PROPERTY_ID, case)
        return
    if case.get("cli"):
        from rpv.checks import cli_slices

        cli_slices.c03_replay(ctx, case)
        return
    _observe(ctx, get_ip(ctx), case["hist"], sched_from_json(case["schedule"]))


def coverage(merged: Dict[str, Any], tier: str) -> Dict[str, Any]:
    c = merged["counters"]
    return {
        "evaluations": c.get("executions", 0),
        "distinct_nontrivial": len(merged["sets"].get("nontrivial", ())),
        "events_checked": {"taxable_events": c.get("events_checked", 0), "non_taxable_rows": c.get("non_taxable_rows_checked", 0), "cli_runs": c.get("cli_runs", 0)},
        "transaction_types_seen": sorted(merged["sets"].get("tag_types", ())),
    }
