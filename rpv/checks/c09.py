"""C09 - later transactions never change results already computed for earlier periods.

Relational monitor over pairs of real compute_tax runs: history prefix vs its extension (every cut between two distinct
instants), and to-date D vs the history truncated at D.
"""

from __future__ import annotations

import copy
from datetime import date, datetime, timedelta, timezone
from decimal import Decimal
from typing import Any, Dict, List, Optional, Tuple

from rpv.checks.inproc_util import candidate_days, clean_cut, get_ip, sched_from_json, sched_json
from rpv.gen import METHODS, OUT_TYPES, Profile, dstr, fmt_ts, history, own_years, parse_ts, schedule
from rpv.model import Model
from rpv.workload import deepen
from rpv.oracle.balance import is_valid

PROPERTY_ID = "C09"
LEVEL = "exploration"
RULE = (
    "valid generated histories x every cut T between two distinct instants x methods / schedules; continuations are the "
    "history's own later rows plus tempting extras appended after T (a higher-priced lot for HIFO, a lower-priced one for "
    "LOFO, a newer one for LIFO, dated 1 us / 1 day after T, and a disposal that would exhaust earlier lots); directed: the configured "
    "method changes in a year without transactions while a lot is partly consumed. Relation: all "
    "fraction records (event, lot, amount, proceeds, cost, gain, long/short) of events <= T and the yearly lines of years "
    "closed before the continuation are identical in both runs; second form: run with to-date D == run on the history "
    "truncated at D (fractions, yearly lines, balances, average price, k/n labels), also with rows stamped exactly 00:00:00.000000 "
    "on the day after D (date-only exports). Non-trivial = a cut with >= 1 disposal "
    "fraction before T and >= 1 lot after T; distinct = hash of (history, schedule, cut)"
)
ASSUMPTIONS = [
    "a lot at the same instant as T belongs to the prefix (the cut is between two distinct instants)",
    "to-dates are only used where own-date order and instant order agree across the cut (KF1 region excluded)",
]
SETTINGS: Dict[str, Dict[str, Any]] = {
    "quick": {"cases": 500, "cli_cases": 48, "budget_s": 50, "minimums": {"cuts_checked": 3000, "nontrivial": 1500, "todate_pairs": 500, "cli_pairs": 3, "todate_pairs_with_a_row_at_the_midnight_after_the_to_date": 150, "histories_with_a_method_change_in_a_year_without_transactions": 25}},
    "thorough": {"cases": 30000, "cli_cases": 150, "budget_s": 420, "minimums": {"cuts_checked": 90000, "nontrivial": 48000, "todate_pairs": 15000, "cli_pairs": 45, "todate_pairs_with_a_row_at_the_midnight_after_the_to_date": 4800, "histories_with_a_method_change_in_a_year_without_transactions": 720}},
}
PROFILES = [
    Profile(max_events=14, min_events=5),
    Profile(max_events=14, min_events=5, p_earn=0.5, price_style="small"),
    Profile(max_events=16, min_events=5, tie_prob=0.4, mixed_tz=True, price_style="equal"),
    Profile(max_events=16, min_events=6, gap_style="long"),
    Profile(max_events=14, min_events=5, n_exchanges=2, n_holders=2, p_intra=0.3),
    Profile(max_events=14, min_events=5, mixed_tz=True, gap_style="short", price_style="small", tie_prob=0.1, p_earn=0.3),
    Profile(max_events=12, min_events=5, mixed_tz=True, gap_style="short", price_style="small", tie_prob=0.0, p_in=0.55, p_out=0.4, p_intra=0.05),
]


def tempting_extras(prefix: Dict[str, Any], cut: Any, rng: Any) -> List[Dict[str, Any]]:
    """Rows dated after the cut that every method would love to use for the prefix's disposals."""
    model = Model(prefix)
    prices = [lot.spot for lot in model.lots.values()]
    high = Decimal(int(max(prices)) + 1000)
    low = Decimal("0.00000001")
    rows = []
    base_row = max(r["row"] for r in prefix["rows"]) + 100
    account = (prefix["rows"][0].get("ex") or prefix["exchanges"][0], prefix["rows"][0].get("ho") or prefix["holders"][0])
    for i, (delta, price) in enumerate(((timedelta(microseconds=1), high), (timedelta(microseconds=2), low), (timedelta(days=1), high))):
        rows.append({"t": "IN", "row": base_row + i, "ts": fmt_ts(cut + delta, rng.choice((0, 330, -480, -720, 840))), "ex": account[0], "ho": account[1], "type": rng.choice(("BUY", "INTEREST")), "spot": dstr(price), "cin": dstr(Decimal(rng.choice(("0.5", "5", "5000")))), "cfee": None, "fin_nf": None, "fin_wf": None, "ffee": None, "uid": f"X-IN-{i}", "notes": ""})
    # a disposal that exhausts whatever the prefix left in the account it lives in
    final = model.balances().get(account, {}).get("final")
    if final is not None and final > 0:
        amount = Decimal(final.numerator) / Decimal(final.denominator)
        rows.append({"t": "OUT", "row": base_row + 10, "ts": fmt_ts(cut + timedelta(days=2), 0), "ex": account[0], "ho": account[1], "type": rng.choice(OUT_TYPES[:3]), "spot": "77", "cout": dstr(amount), "cfee": "0", "cout_wf": None, "fout_nf": None, "ffee": None, "uid": "X-OUT-0", "notes": ""})
    return rows


def midnight_rows(hist: Dict[str, Any], day: date, rng: Any) -> Dict[str, Any]:
    """The history plus an income row (and sometimes a sale of part of it) at exactly midnight starting the day after `day`,
    written in the offset of the history's last row on or before that day."""
    before = [r for r in hist["rows"] if parse_ts(r["ts"]).date() <= day]
    offset = int(parse_ts(max(before, key=lambda r: parse_ts(r["ts"]))["ts"]).utcoffset().total_seconds() // 60) if before else 0
    account = (hist["exchanges"][0], hist["holders"][0])
    instant = datetime.combine(day + timedelta(days=1), datetime.min.time(), tzinfo=timezone(timedelta(minutes=offset))).astimezone(timezone.utc)
    base_row = max(r["row"] for r in hist["rows"]) + 200
    rows = [{"t": "IN", "row": base_row, "ts": fmt_ts(instant, offset), "ex": account[0], "ho": account[1], "type": rng.choice(("INTEREST", "STAKING", "BUY")), "spot": dstr(Decimal(rng.randint(50, 5000))), "cin": "2", "cfee": None, "fin_nf": None, "fin_wf": None, "ffee": None, "uid": "M-IN-0", "notes": ""}]
    if rng.random() < 0.5:
        rows.append({"t": "OUT", "row": base_row + 1, "ts": fmt_ts(instant, offset), "ex": account[0], "ho": account[1], "type": rng.choice(OUT_TYPES[:3]), "spot": "91", "cout": "0.5", "cfee": "0", "cout_wf": None, "fout_nf": None, "ffee": None, "uid": "M-OUT-0", "notes": ""})
    return dict(hist, rows=[dict(r) for r in hist["rows"]] + rows)


def _keys(trace: List[Any], model: Model, cut: Any) -> List[Tuple[Any, ...]]:
    return [f.key() for f in trace if model.events[f.event].utc <= cut]


def _observe_prefixes(ctx: Any, ip: Any, hist: Dict[str, Any], sched: Dict[int, str], rng: Any, only_cut: Optional[str] = None) -> None:
    from rpv.drive_inproc import trace_of, yearly_of

    model = Model(hist)
    full = ip.run(hist, sched)
    ctx.count("executions")
    ctx.count("valid_cases")
    if not full.ok:
        # the whole (valid) history fails: if a prefix of it computes, the continuation took the earlier results away
        instants = sorted({parse_ts(r["ts"]).astimezone(timezone.utc) for r in hist["rows"]})
        for cut in reversed(instants[:-1]):
            prefix = dict(hist, rows=[r for r in hist["rows"] if parse_ts(r["ts"]).astimezone(timezone.utc) <= cut])
            if not any(r["t"] == "IN" for r in prefix["rows"]) or min(sched) > min(parse_ts(r["ts"]).year for r in prefix["rows"]):
                continue
            a = ip.run(prefix, sched)
            ctx.count("executions")
            if a.ok and any(f.lot is not None for f in trace_of(a.computed)):
                ctx.violation(
                    "stability.valid-continuation-makes-the-run-fail",
                    {"cut": str(cut), "error_with_continuation": full.error[:300], "fractions_computed_without_it": len(trace_of(a.computed))},
                    {"hist": hist, "schedule": sched_json(sched), "cut": str(cut), "form": "prefix"},
                )
                return
        ctx.count("unobservable")
        ctx.tag("tag_unobservable", full.error[:80])
        return
    full_trace = trace_of(full.computed)
    instants = sorted({parse_ts(r["ts"]).astimezone(timezone.utc) for r in hist["rows"]})
    first_lot = min(lot.utc for lot in model.lots.values())
    for cut in instants[:-1]:
        if cut < first_lot:
            continue
        if only_cut is not None and str(cut) != only_cut:
            continue
        prefix = dict(hist, rows=[r for r in hist["rows"] if parse_ts(r["ts"]).astimezone(timezone.utc) <= cut])
        if not any(r["t"] == "IN" for r in prefix["rows"]):
            continue
        if min(sched) > min(parse_ts(r["ts"]).year for r in prefix["rows"]):
            continue
        case = {"hist": hist, "schedule": sched_json(sched), "cut": str(cut), "form": "prefix"}
        a = ip.run(prefix, sched)
        ctx.count("executions")
        ctx.count("valid_cases")
        if not a.ok:
            ctx.count("unobservable")
            ctx.tag("tag_unobservable", a.error[:80])
            continue
        pmodel = Model(prefix)
        a_trace = trace_of(a.computed)
        a_keys = [f.key() for f in a_trace]
        # extension 1: the history's own continuation
        pairs = [("own-continuation", full_trace, model)]
        # extension 2: tempting extras
        extras = tempting_extras(prefix, cut, rng)
        extended = dict(prefix, rows=prefix["rows"] + extras)
        b = ip.run(extended, sched)
        ctx.count("executions")
        if b.ok:
            pairs.append(("tempting-extras", trace_of(b.computed), Model(extended)))
        elif is_valid(Model(extended)) and _schedule_covers(sched, extended):
            ctx.violation(
                "stability.valid-continuation-makes-the-run-fail",
                {"cut": str(cut), "continuation": "tempting-extras", "error_with_continuation": b.error[:300], "fractions_computed_without_it": len(a_keys)},
                dict(case, continuation="tempting-extras", extras=extras),
            )
        else:
            ctx.count("extras_rejected")
        for name, b_trace, b_model in pairs:
            b_keys = _keys(b_trace, b_model, cut)
            ctx.count("cuts_checked")
            ctx.count("fractions_compared", len(a_keys))
            if a_keys != b_keys:
                diff = next((i for i, (x, y) in enumerate(zip(a_keys, b_keys)) if x != y), min(len(a_keys), len(b_keys)))
                ctx.violation(
                    "stability.earlier-fractions-changed",
                    {"continuation": name, "first_difference_index": diff, "prefix_run": [str(x) for x in a_keys[diff : diff + 2]], "extended_run": [str(x) for x in b_keys[diff : diff + 2]]},
                    dict(case, continuation=name, extras=extras if name == "tempting-extras" else None),
                )
        # yearly lines of years closed before the continuation starts (own-timestamp years)
        later_years = [parse_ts(r["ts"]).year for r in hist["rows"] if parse_ts(r["ts"]).astimezone(timezone.utc) > cut]
        if later_years:
            closed = min(later_years)
            ya = [y for y in yearly_of(a.computed) if y[0] < closed]
            yb = [y for y in yearly_of(full.computed) if y[0] < closed]
            ctx.count("yearly_lines_compared", len(ya))
            if ya != yb:
                ctx.violation("stability.closed-year-totals-changed", {"closed_before": closed, "prefix_run": str(ya[:2]), "extended_run": str(yb[:2])}, case)
        has_disposal_before = any(f.lot is not None for f in a_trace)
        has_lot_after = any(lot.utc > cut for lot in model.lots.values())
        if has_disposal_before and has_lot_after:
            ctx.distinct("nontrivial", case)
            ctx.sample({"cut": str(cut), "schedule": sched_json(sched), "rows_before": len(prefix["rows"]), "rows_after": len(hist["rows"]) - len(prefix["rows"]), "fractions_before": len(a_keys)})


def _schedule_covers(sched: Dict[int, str], hist: Dict[str, Any]) -> bool:
    """The config is only valid for a history whose every own-timestamp year has a method: a continuation written in a western
    offset right after new year can carry an own year *before* the first year of a schedule that covered the prefix."""
    return min(sched) <= min(parse_ts(r["ts"]).year for r in hist["rows"])


def _observe_todate(ctx: Any, ip: Any, hist: Dict[str, Any], sched: Dict[int, str], day_s: str) -> None:
    from rpv.drive_inproc import balances_of, frac, labels_of, trace_of, yearly_of

    day = date.fromisoformat(day_s)
    truncated = dict(hist, rows=[r for r in hist["rows"] if parse_ts(r["ts"]).date() <= day])
    if not any(r["t"] == "IN" for r in truncated["rows"]):
        return
    if min(sched) > min(parse_ts(r["ts"]).year for r in truncated["rows"]):
        return
    case = {"hist": hist, "schedule": sched_json(sched), "to": day_s, "form": "to-date"}
    a = ip.run(truncated, sched)
    b = ip.run(hist, sched, to_date=day)
    ctx.count("executions", 2)
    ctx.count("valid_cases", 2)
    if not a.ok or not b.ok:
        ctx.count("unobservable")
        ctx.tag("tag_unobservable", (a.error or b.error)[:80])
        return
    ctx.count("todate_pairs")
    observations = {
        "fractions": ([f.key() for f in trace_of(a.computed)], [f.key() for f in trace_of(b.computed)]),
        "yearly": (yearly_of(a.computed), yearly_of(b.computed)),
        "balances": (balances_of(a.computed), balances_of(b.computed)),
        "average-price": (frac(a.computed.price_per_unit), frac(b.computed.price_per_unit)),
        "labels": (labels_of(a.computed), labels_of(b.computed)),
    }
    for name, (x, y) in observations.items():
        if x != y:
            ctx.violation(f"stability.to-date-differs-from-truncated.{name}", {"truncated_run": str(x)[:300], "to_date_run": str(y)[:300]}, case)


def run_shard(ctx: Any) -> None:
    ip = get_ip(ctx)
    settings = SETTINGS[ctx.tier]
    share = ctx.share(settings["cases"])
    index = ctx.shard
    done = 0
    while done < share and (ctx.budget_s - ctx.time_left()) < ctx.budget_s * 0.75:
        rng = ctx.rng("case", index)
        hist = history(rng, deepen(ctx, index, PROFILES[index % len(PROFILES)]))
        if is_valid(Model(hist)):
            years = own_years(hist)
            scheds = [{1970: m} for m in rng.sample(list(METHODS), 2)]
            if rng.random() < 0.4:
                scheds.append(schedule(rng, years[0], years[-1]))
            for sched in scheds:
                _observe_prefixes(ctx, ip, hist, sched, rng)
                clean_days = [d for d in candidate_days(rng, hist, 5) if clean_cut(hist, d)]
                for d in clean_days[:2]:
                    _observe_todate(ctx, ip, hist, sched, d.isoformat())
                if clean_days:
                    # date-only exports: transactions stamped exactly 00:00:00.000000 on the day after the to-date are outside
                    d = clean_days[-1]
                    with_midnight = midnight_rows(hist, d, rng)
                    if clean_cut(with_midnight, d) and is_valid(Model(with_midnight)):
                        ctx.count("todate_pairs_with_a_row_at_the_midnight_after_the_to_date")
                        _observe_todate(ctx, ip, with_midnight, sched, d.isoformat())
        else:
            ctx.count("generated_invalid")
        if index % 8 == 5:
            from rpv import families

            sparse, sparse_sched = families.method_switch_in_an_empty_year(rng)
            if is_valid(Model(sparse)):
                ctx.count("histories_with_a_method_change_in_a_year_without_transactions")
                _observe_prefixes(ctx, ip, sparse, sparse_sched, rng)
        index += ctx.nshards
        done += 1
    ctx.count("inputs", done)
    try:
        from rpv.checks import cli_slices
    except ImportError:
        return
    cli_slices.c09(ctx, settings["cli_cases"])


def replay(ctx: Any, case: Dict[str, Any]) -> None:
    if case.get("cli"):
        from rpv.checks import cli_slices

        cli_slices.c09_replay(ctx, case)
        return
    ip = get_ip(ctx)
    sched = sched_from_json(case["schedule"])
    if case.get("form") == "to-date":
        _observe_todate(ctx, ip, case["hist"], sched, case["to"])
    elif case.get("extras"):
        from rpv.drive_inproc import trace_of

        hist = case["hist"]
        prefix = dict(hist, rows=[r for r in hist["rows"] if str(parse_ts(r["ts"]).astimezone(timezone.utc)) <= case["cut"]])
        extended = dict(prefix, rows=prefix["rows"] + case["extras"])
        a, b = ip.run(prefix, sched), ip.run(extended, sched)
        if a.ok and not b.ok and is_valid(Model(extended)) and _schedule_covers(sched, extended):
            ctx.violation("stability.valid-continuation-makes-the-run-fail", {"error_with_continuation": b.error[:300]}, case)
        elif a.ok and b.ok:
            cut = max(parse_ts(r["ts"]).astimezone(timezone.utc) for r in prefix["rows"])
            if [f.key() for f in trace_of(a.computed)] != _keys(trace_of(b.computed), Model(extended), cut):
                ctx.violation("stability.earlier-fractions-changed", {"continuation": "tempting-extras"}, case)
    else:
        import random

        # the extras of the original run are re-derived from the same deterministic choices where possible
        _observe_prefixes(ctx, ip, case["hist"], sched, random.Random(0), only_cut=case.get("cut"))


def coverage(merged: Dict[str, Any], tier: str) -> Dict[str, Any]:
    c = merged["counters"]
    return {
        "evaluations": c.get("executions", 0),
        "distinct_nontrivial": len(merged["sets"].get("nontrivial", ())),
        "events_checked": {
            "prefix_extension_pairs": c.get("cuts_checked", 0),
            "fraction_records_compared": c.get("fractions_compared", 0),
            "closed_year_lines_compared": c.get("yearly_lines_compared", 0),
            "to_date_vs_truncated_pairs": c.get("todate_pairs", 0),
            "cli_pairs": c.get("cli_pairs", 0),
        },
    }
