"""C18 - no network, no subprocess, writes confined to the output and log directories.

Interpreter-level monitor (sys.addaudithook, injected through a sitecustomize on PYTHONPATH into every CLI subprocess)
cross-checked by strace at syscall level, plus before/after hashes of the inputs, listings of cwd and of a decoy $HOME,
and an import sweep that loads every module of the rp2 package once under the hook.
"""

from __future__ import annotations

import ast
import copy
import hashlib
import json
import os
import re
import shutil
import subprocess
from typing import Any, Dict, List, Optional, Set, Tuple

from rpv.cli_core import cli_histories, cli_profile
from rpv.common import MONITOR_DIR, PYTHON, rp2_src
from rpv.drive_cli import COUNTRIES, COUNTRY_LANGUAGES, COUNTRY_METHODS, Workspace
from rpv.gen import METHODS

PROPERTY_ID = "C18"
LEVEL = "exploration"
RULE = (
    "real CLI runs of all five entry points on valid inputs (all generators, date filters, -n, prefixes; a third of them into an output "
    "directory where the report names are symbolic links to earlier reports archived elsewhere, one link dangling: the archived files must stay byte-identical), on valid inputs with "
    "every environment variable that RP2's own files were observed consulting set (names discovered at run time by a hook on "
    "os.environ lookups, e.g. RP2_ENABLE_PROFILER, LOG_LEVEL), on inputs carrying one fault of C12's catalogue (row / structure / "
    "config classes), on hard errors (garbage or binary config, input that is not a zip, missing files, wrongly typed cells: "
    "exceptions other than RP2ValueError), on large inputs (520-1100 rows in one sheet) and on invalid options, with the audit hook recording socket.*, name resolution, subprocess / os.system / exec / "
    "spawn / fork, ctypes.dlopen, webbrowser, file opens for writing, rename / remove / mkdir and imports with their direct "
    "importer; a subset of the same runs under strace -f (network and process syscalls); sha256 of input and config before and "
    "after; listing of cwd and of a decoy $HOME; an import sweep loading every module found by walking the package. "
    "Non-trivial = run that wrote >= 1 report or exercised an error path; distinct = hash of (entry point, options, input)"
)
ASSUMPTIONS = [
    "a function-local import on a path no workload reaches is invisible to this family; the check reports (AST count, evidence only) how many import statements exist and how many were observed executing",
    "networking modules imported by third-party or stdlib code (today: socket via email.utils via pycountry / importlib.metadata) are attributed to their direct importer, not to RP2",
    "strace sees the Python interpreter's own syscalls too: only network-family and process-creation syscalls are judged",
]
SETTINGS: Dict[str, Dict[str, Any]] = {
    "quick": {"cases": 160, "strace_every": 8, "budget_s": 75, "minimums": {"runs_into_a_directory_of_links_to_archived_reports": 6, "audited_runs": 120, "strace_runs": 12, "write_events": 250, "import_events": 20000, "modules_swept": 40, "import_sites": 250, "nontrivial": 100, "error_path_runs": 40, "runs_with_rp2_env_variable_set": 12, "tag_env_names_read_by_rp2": 2, "tag_error_types": 3, "tag_fault_class": 20, "large_input_runs": 2, "tag_hard_error": 11}, "required_tags": {"tag_country": list(COUNTRIES)}},
    "thorough": {"cases": 1600, "strace_every": 8, "budget_s": 600, "minimums": {"runs_into_a_directory_of_links_to_archived_reports": 36, "audited_runs": 720, "strace_runs": 72, "write_events": 2400, "import_events": 120000, "modules_swept": 40, "import_sites": 250, "nontrivial": 600, "error_path_runs": 240, "runs_with_rp2_env_variable_set": 72, "tag_env_names_read_by_rp2": 2, "tag_error_types": 3, "tag_fault_class": 24, "large_input_runs": 12, "tag_hard_error": 13}, "required_tags": {"tag_country": list(COUNTRIES)}},
}
NETWORK_MODULES = {
    "socket", "_socket", "ssl", "_ssl", "http", "http.client", "http.server", "http.cookiejar", "urllib.request", "urllib3", "ftplib", "smtplib", "poplib", "imaplib",
    "nntplib", "telnetlib", "xmlrpc", "xmlrpc.client", "xmlrpc.server", "asyncio", "requests", "aiohttp", "httpx", "websocket", "websockets", "socketserver", "paramiko",
    "pycurl", "webbrowser", "smtpd", "selectors", "multiprocessing.connection", "grpc", "boto3", "botocore", "dns", "ipaddress_never",
}  # fmt: skip
FORBIDDEN_EVENTS = ("socket.", "subprocess.", "os.system", "os.exec", "os.posix_spawn", "os.fork", "os.forkpty", "os.spawn", "webbrowser.", "urllib.", "http.", "ftplib.", "smtplib.", "poplib.", "imaplib.", "nntplib.", "telnetlib.", "os.startfile", "pty.spawn", "_posixsubprocess")
STRACE_FORBIDDEN = re.compile(r"\b(socket|connect|bind|listen|accept4?|sendto|recvfrom|sendmsg|recvmsg|getsockname|getpeername|setsockopt|getsockopt|socketpair|shutdown|fork|vfork|clone3?|execveat)\(")


def _sha(path: str) -> str:
    if not os.path.exists(path):
        return "(absent)"
    if os.path.isdir(path):
        return "(directory) " + ",".join(sorted(os.listdir(path)))
    with open(path, "rb") as handle:
        return hashlib.sha256(handle.read()).hexdigest()


def _listing(root: str) -> List[str]:
    out = []
    for base, dirs, files in os.walk(root):
        for f in files:
            out.append(os.path.relpath(os.path.join(base, f), root))
    return sorted(out)


INPUT_ENV = ("CURRENCY_CODE", "LONG_TERM_CAPITAL_GAINS")  # inputs of the generic country (their faults are C12's classes)
ENV_VALUES = ("1", "DEBUG", "INFO", "yes")
HARD_ERRORS = ("ini-garbage-before-first-section", "ods-is-not-a-zip", "ods-missing", "ini-missing", "wrong-cell-type-number-in-text-field", "wrong-cell-type-text-in-timestamp", "ini-binary", "prefix-with-missing-subdirectory", "ini-is-a-directory", "ods-is-a-directory", "output-dir-is-a-file", "cwd-log-is-a-file", "interpreter-without-_decimal")
KINDS = ("valid", "documented-fault", "valid-env", "documented-fault", "valid", "hard-error", "documented-fault", "invalid-option", "valid-env", "documented-fault", "large-input")


def discover_env(ctx: Any) -> List[str]:
    """Names of the environment variables that files of the package under test consult (observed, not grepped): one valid
    run per entry point family under the audit hook. The scenarios then set each of them."""
    names: Set[str] = set()
    rng = ctx.rng("discover-env")
    hists = cli_histories(rng, 1, cli_profile(max_events=6, min_events=3))
    for country, args in (("us", ["-m", "fifo"]), ("generic", []), ("jp", ["-g", "en"])):
        ws = Workspace(ctx.scratch, f"discover-{country}")
        try:
            ws.write(copy.deepcopy(hists))
            res = ws.run(country, args, audit=True)
            ctx.count("executions")
            for event in res.audit:
                if event.get("e") == "env-read":
                    names.add(str(event.get("name")))
        finally:
            ws.cleanup()
    for name in sorted(names):
        ctx.tag("tag_env_names_read_by_rp2", name)
    return sorted(names)


def scenario(rng: Any, index: int, env_names: Optional[List[str]] = None) -> Dict[str, Any]:
    from rpv.checks import c12

    country = COUNTRIES[index % len(COUNTRIES)]
    kind = KINDS[(index // len(COUNTRIES)) % len(KINDS)] if index >= len(COUNTRIES) else "valid"
    two_assets = kind == "documented-fault" or rng.random() < 0.5
    if kind == "large-input":
        # a sheet with many hundreds of rows (sizes at which caching / batching shortcuts would kick in)
        hists = cli_histories(rng, 1, cli_profile(max_events=rng.choice((560, 700, 1100)), min_events=520, tie_prob=0.05, gap_style="short", p_in=0.5, p_out=0.3, p_intra=0.2))
    else:
        hists = cli_histories(rng, 2 if two_assets else 1, cli_profile(max_events=10, min_events=4))
    args: List[str] = []
    case: Dict[str, Any] = {"country": country, "hists": hists, "kind": kind, "env": {}, "fault": None, "hard": None}
    language = rng.choice(COUNTRY_LANGUAGES[country])
    args += ["-g", language]
    if rng.random() < 0.6:
        args += ["-m", rng.choice(COUNTRY_METHODS[country])]
    if kind in ("valid", "valid-env", "large-input"):
        if rng.random() < 0.3:
            args += ["-p", "pre_"]
        if rng.random() < 0.3:
            args += ["-n"]
        if rng.random() < 0.3:
            from rpv.gen import parse_ts

            days = sorted({parse_ts(r["ts"]).date() for h in hists.values() for r in h["rows"]})
            args += ["-f", days[len(days) // 2].isoformat()]
        if kind == "valid-env":
            candidates = [n for n in (env_names or []) if n not in INPUT_ENV]
            if candidates:
                chosen = candidates if rng.random() < 0.3 else [rng.choice(candidates)]
                case["env"] = {name: rng.choice(ENV_VALUES) for name in chosen}
            else:
                case["kind"] = "valid"
    elif kind == "documented-fault":
        # one fault of C12's catalogue (row / structure / config classes), here observed for side effects; the class rotates
        # with the case index so that every class is driven, the position within the class is random
        faults = [f for f in c12.enumerate_faults(hists, "sampled", rng) if f["kind"] != "args"]
        by_class: Dict[str, List[Dict[str, Any]]] = {}
        for f in faults:
            by_class.setdefault(f["class"], []).append(f)
        classes = sorted(by_class)
        case["fault"] = rng.choice(by_class[classes[index % len(classes)]])
    elif kind == "hard-error":
        case["hard"] = HARD_ERRORS[((index // len(COUNTRIES)) // len(KINDS) * len(COUNTRIES) + index % len(COUNTRIES)) % len(HARD_ERRORS)]
        if case["hard"] == "prefix-with-missing-subdirectory":
            args += ["-p", "reports-2021/"]
    else:
        args += rng.choice((["-f", "2022-01-01", "-t", "2021-01-01"], ["-l", "x"], ["-g", "zz"], ["-a", "NOPE"], ["-f", "not-a-date"], ["--bogus-option"]))
    case["args"] = args
    # the user archived earlier reports and left symbolic links under the report names in the output directory (one of them dangling)
    case["archive_links"] = kind in ("valid", "valid-env") and index % 3 == 1
    return case


def apply_case(ws: Workspace, case: Dict[str, Any]) -> None:
    """Write the ini and ods of a scenario (faulted where the scenario says so)."""
    import random as _random

    from rpv import ods_io
    from rpv.checks import c12

    hists = copy.deepcopy(case["hists"])
    fault = case.get("fault")
    hard = case.get("hard")
    if fault and fault["kind"] == "row":
        row = next(r for r in hists[fault["asset"]]["rows"] if r["uid"] == fault["uid"] and r["t"] == fault["table"])
        row.update(fault["edit"])
    if hard == "wrong-cell-type-number-in-text-field":
        row = hists[sorted(hists)[0]]["rows"][0]
        row["ex" if row["t"] != "INTRA" else "fex"] = {"raw": 12.5}
    elif hard == "wrong-cell-type-text-in-timestamp":
        hists[sorted(hists)[0]]["rows"][0]["ts"] = {"raw": 20200101.5}
    ws.write(hists)
    if fault and fault["kind"] == "grid":
        ods_io.write_input(ws.ods, copy.deepcopy(case["hists"]), ws.layout, _random.Random(0), faults={"asset": fault["asset"], "grid_edit": c12.grid_edit_for(fault)})
    if fault and fault["kind"] == "ini":
        assets = sorted(hists)
        exchanges = sorted({e for h in hists.values() for e in h["exchanges"]})
        holders = sorted({x for h in hists.values() for x in h["holders"]})
        with open(ws.ini, encoding="utf-8") as handle:
            text = handle.read()
        if fault["class"] == "config-deprecated-json":
            # a JSON configuration lives in a .json file (no sibling .ini)
            os.remove(ws.ini)
            ws.ini = os.path.join(ws.root, "config.json")
            text = c12.json_config(assets, exchanges, holders)
        else:
            text = c12.mutate_ini(text, fault)
        with open(ws.ini, "w", encoding="utf-8") as handle:
            handle.write(text)
    if hard == "ini-garbage-before-first-section":
        with open(ws.ini, encoding="utf-8") as handle:
            text = handle.read()
        with open(ws.ini, "w", encoding="utf-8") as handle:
            handle.write("this line precedes every section header\n" + text)
    elif hard == "ini-binary":
        with open(ws.ini, "wb") as handle:
            handle.write(bytes(range(256)) * 4)
    elif hard == "ods-is-not-a-zip":
        with open(ws.ods, "w", encoding="utf-8") as handle:
            handle.write("timestamp,asset\n2020-01-01,AAA\n")
    elif hard == "ods-missing":
        os.remove(ws.ods)
    elif hard == "ini-is-a-directory":
        os.remove(ws.ini)
        os.makedirs(ws.ini)
    elif hard == "ods-is-a-directory":
        os.remove(ws.ods)
        os.makedirs(ws.ods)
    elif hard == "ini-missing":
        os.remove(ws.ini)


def judge_audit(ctx: Any, res: Any, ws: Workspace, out_dir: str, case: Dict[str, Any]) -> None:
    allowed_roots = [os.path.realpath(out_dir) + os.sep, os.path.realpath(os.path.join(ws.root, "log")) + os.sep]
    package_root = os.path.realpath(os.path.join(rp2_src(), "rp2")) + os.sep
    for event in res.audit:
        name = event.get("e", "")
        if name == "import":
            ctx.count("import_events")
            module = event.get("module", "")
            importer = os.path.realpath(event.get("importer") or "")
            if importer.startswith(package_root):
                ctx.count("imports_by_rp2_files")
                if module in NETWORK_MODULES or module.split(".")[0] in NETWORK_MODULES:
                    ctx.violation("privacy.rp2-imports-networking-module", {"module": module, "importer": importer}, case)
            elif module in ("socket", "ssl", "http.client", "urllib.request", "asyncio", "requests"):
                ctx.tag("tag_network_modules_imported_by_others", f"{module} <- {os.path.basename(os.path.dirname(importer))}/{os.path.basename(importer)}")
        elif name == "import-stmt":
            ctx.count("import_statements_executed_by_rp2_files")
            ctx.distinct("import_sites", [os.path.relpath(event.get("importer", ""), package_root), event.get("module"), event.get("fromlist")])
            for module in [event.get("module", "")] + [f"{event.get('module', '')}.{x}" for x in event.get("fromlist", [])]:
                if module in NETWORK_MODULES or module.split(".")[0] in NETWORK_MODULES:
                    ctx.violation("privacy.rp2-imports-networking-module", {"module": module, "importer": event.get("importer"), "dynamic": event.get("dynamic", False)}, case)
        elif name == "open-write":
            ctx.count("write_events")
            path = os.path.realpath(str(event.get("path")))
            if not any(path.startswith(root) for root in allowed_roots):
                ctx.violation("privacy.write-outside-output-and-log", {"path": path, "mode": event.get("mode")}, case)
        elif name.startswith(("os.rename", "os.remove", "os.rmdir", "os.mkdir", "os.truncate", "os.link", "os.symlink", "os.chmod", "os.chown", "shutil.", "os.utime")):
            ctx.count("fs_events")
            for arg in event.get("args", []):
                if isinstance(arg, str) and arg.startswith("/"):
                    path = os.path.realpath(arg)
                    if not any((path + os.sep).startswith(root) or path.startswith(root) for root in allowed_roots):
                        ctx.violation("privacy.filesystem-change-outside-output-and-log", {"event": name, "path": path}, case)
        elif name.startswith(FORBIDDEN_EVENTS):
            ctx.violation("privacy.forbidden-interpreter-event", {"event": name, "args": event.get("args")}, case)
        elif name == "ctypes.dlopen":
            ctx.tag("tag_dlopen", str(event.get("args"))[:80])


def judge_strace(ctx: Any, text: str, case: Dict[str, Any]) -> None:
    lines = [l for l in text.splitlines() if l.strip()]
    execs = [l for l in lines if "execve(" in l]
    if len(execs) != 1:
        ctx.violation("privacy.strace-exec", {"execve_lines": execs[:3]}, case)
    for line in lines:
        if "execve(" in line:
            continue
        if STRACE_FORBIDDEN.search(line):
            ctx.violation("privacy.strace-network-or-process-syscall", {"syscall": line[:200]}, case)
            break
    ctx.count("strace_lines", len(lines))


def _one(ctx: Any, case: Dict[str, Any], name: str, strace: bool) -> None:
    ws = Workspace(ctx.scratch, name)
    try:
        apply_case(ws, case)
        home = os.path.join(ws.root, "home")
        os.makedirs(home)
        with open(os.path.join(home, ".decoy"), "w", encoding="utf-8") as handle:
            handle.write("decoy")
        out_dir = ws.new_out()
        if case.get("hard") == "output-dir-is-a-file":
            os.rmdir(out_dir)
            with open(out_dir, "w", encoding="utf-8") as handle:
                handle.write("this is a file, not a directory\n")
        archived: Dict[str, str] = {}
        if case.get("archive_links"):
            first = ws.run(case["country"], case["args"], out_dir=out_dir, audit=False, home=home, env_extra=dict(case.get("env") or {}) or None)
            ctx.count("executions")
            archive = os.path.join(ws.root, "archive")
            os.makedirs(archive)
            for k, fname in enumerate(sorted(f for f in os.listdir(out_dir) if f.endswith(".ods"))):
                if first.exit != 0:
                    break
                if k == 0:
                    os.remove(os.path.join(out_dir, fname))
                    os.symlink(os.path.join(archive, "not-there.ods"), os.path.join(out_dir, fname))
                else:
                    os.rename(os.path.join(out_dir, fname), os.path.join(archive, "filed-" + fname))
                    os.symlink(os.path.join("..", "archive", "filed-" + fname) if k % 2 else os.path.join(archive, "filed-" + fname), os.path.join(out_dir, fname))
                    archived[os.path.join(archive, "filed-" + fname)] = _sha(os.path.join(archive, "filed-" + fname))
            if archived:
                ctx.count("runs_into_a_directory_of_links_to_archived_reports")
        scratch_tmp = os.path.join(ws.root, "tmp")
        os.makedirs(scratch_tmp, exist_ok=True)
        if case.get("hard") == "cwd-log-is-a-file":
            # ./log cannot be created (a file of that name is in the way, e.g. left by `rp2_us ... > log`): RP2 has nowhere to log
            with open(os.path.join(ws.root, "log"), "w", encoding="utf-8") as handle:
                handle.write("output of an earlier run redirected here\n")
        before = {"ini": _sha(ws.ini), "ods": _sha(ws.ods), "cwd": _listing(ws.root), "home": _listing(home)}
        env_extra = dict(case.get("env") or {})
        env_extra["TMPDIR"] = scratch_tmp  # temporary files, if any, are then inside the tree whose listing is compared
        if case.get("hard") == "interpreter-without-_decimal":
            env_extra["RPV_BLOCK_MODULES"] = "_decimal"
        res = ws.run(case["country"], case["args"], out_dir=out_dir, audit=True, strace=False, home=home, env_extra=env_extra)
        ctx.count("executions")
        ctx.count("valid_cases")
        ctx.count("audited_runs")
        ctx.tag("tag_country", case["country"])
        ctx.tag("tag_kind", f"{case['kind']}:exit{res.exit}")
        for name, value in (case.get("env") or {}).items():
            ctx.tag("tag_env_set", name)
            ctx.count("runs_with_rp2_env_variable_set")
        if case.get("fault"):
            ctx.tag("tag_fault_class", case["fault"]["class"])
        if case.get("hard"):
            ctx.tag("tag_hard_error", case["hard"])
        if case["kind"] == "large-input":
            ctx.count("large_input_runs")
            ctx.maximum("largest_input_rows", float(max(len(h["rows"]) for h in case["hists"].values())))
        for event in res.audit:
            if event.get("e") == "env-read":
                ctx.tag("tag_env_names_read_by_rp2", str(event.get("name")))
        if res.exit != 0:
            ctx.count("error_path_runs")
            types = re.findall(r"^(\w[\w\.]*(?:Error|Exception)\w*)", res.stderr, re.M)
            ctx.tag("tag_error_types", types[-1] if types else ("argparse/exit" if "error:" in res.stderr or "ERROR" in res.stderr else "other"))
        if not res.audit:
            ctx.count("unobservable")
            ctx.tag("tag_unobservable", "no audit events recorded")
            return
        judge_audit(ctx, res, ws, out_dir, case)
        if _sha(ws.ini) != before["ini"]:
            ctx.violation("privacy.config-file-modified", {}, case)
        if _sha(ws.ods) != before["ods"]:
            ctx.violation("privacy.input-spreadsheet-modified", {}, case)
        for path, digest in archived.items():
            if not os.path.exists(path) or _sha(path) != digest:
                ctx.violation("privacy.file-outside-output-directory-modified-through-a-link", {"file": os.path.relpath(path, ws.root)}, case)
        if _listing(home) != before["home"]:
            ctx.violation("privacy.file-created-in-home", {"files": _listing(home)}, case)
        new_files = [f for f in _listing(ws.root) if f not in before["cwd"]]
        outside = [f for f in new_files if not (f.startswith(os.path.basename(out_dir) + os.sep) or f.startswith("log" + os.sep))]
        if case.get("hard") == "output-dir-is-a-file":
            with open(out_dir, encoding="utf-8") as handle:
                if handle.read() != "this is a file, not a directory\n":
                    ctx.violation("privacy.file-given-as-output-directory-modified", {}, case)
        if outside:
            ctx.violation("privacy.file-created-outside-output-and-log", {"files": outside[:5]}, case)
        if res.files or res.exit != 0:
            ctx.distinct("nontrivial", {"country": case["country"], "args": case["args"], "hists": case["hists"]})
            ctx.sample({"country": case["country"], "args": case["args"], "kind": case["kind"], "exit": res.exit, "files_written": res.files, "audit_events": len(res.audit), "writes": sorted({os.path.relpath(e["path"], ws.root) for e in res.audit if e.get("e") == "open-write"})[:6]})
        if strace:
            out2 = ws.new_out()
            res2 = ws.run(case["country"], case["args"], out_dir=out2, audit=False, strace=True, home=home, env_extra=env_extra)
            ctx.count("executions")
            if res2.strace:
                ctx.count("strace_runs")
                judge_strace(ctx, res2.strace, case)
            else:
                ctx.notes.append(f"strace produced no output: {res2.stderr[-200:]}")
    finally:
        ws.cleanup()


def import_sweep(ctx: Any) -> None:
    """Import every module of the package once under the hook (top-level imports of every module are then observed)."""
    package_root = os.path.join(rp2_src(), "rp2")
    modules = []
    import_statements = 0
    for base, dirs, files in os.walk(package_root):
        dirs[:] = [d for d in dirs if d not in ("__pycache__", "locales", "data")]
        for f in sorted(files):
            if not f.endswith(".py"):
                continue
            path = os.path.join(base, f)
            rel = os.path.relpath(path, rp2_src())[:-3].replace(os.sep, ".")
            modules.append(rel[: -len(".__init__")] if rel.endswith(".__init__") else rel)
            with open(path, encoding="utf-8") as handle:
                tree = ast.parse(handle.read())
            import_statements += sum(1 for node in ast.walk(tree) if isinstance(node, (ast.Import, ast.ImportFrom)))
    work = os.path.join(ctx.scratch, "sweep")
    os.makedirs(work, exist_ok=True)
    log = os.path.join(work, "audit.jsonl")
    env = dict(os.environ, PYTHONPATH=os.pathsep.join([str(MONITOR_DIR), rp2_src()]), RPV_AUDIT_LOG=log, PYTHONDONTWRITEBYTECODE="1", CURRENCY_CODE="usd", LONG_TERM_CAPITAL_GAINS="365", RPV_PACKAGE_ROOT=os.path.join(os.path.realpath(rp2_src()), "rp2") + os.sep)
    code = "import importlib, sys\nfailed = []\nfor m in sys.argv[1:]:\n    try:\n        importlib.import_module(m)\n    except Exception as exc:\n        failed.append((m, repr(exc)))\nprint(failed)\n"
    proc = subprocess.run([PYTHON, "-c", code] + modules, cwd=work, env=env, capture_output=True, text=True, timeout=300)
    case = {"import_sweep": True}
    ctx.count("executions")
    if proc.returncode != 0 or not os.path.exists(log):
        ctx.notes.append(f"import sweep failed: {proc.stderr[-300:]}")
        return
    if proc.stdout.strip() != "[]":
        ctx.notes.append(f"modules that do not import: {proc.stdout.strip()[:300]}")
    package_real = os.path.realpath(package_root) + os.sep
    by_rp2 = 0
    with open(log, encoding="utf-8") as handle:
        for line in handle:
            try:
                event = json.loads(line)
            except ValueError:
                continue
            name = event.get("e", "")
            if name == "import":
                importer = os.path.realpath(event.get("importer") or "")
                if importer.startswith(package_real):
                    by_rp2 += 1
                    module = event.get("module", "")
                    if module in NETWORK_MODULES or module.split(".")[0] in NETWORK_MODULES:
                        ctx.violation("privacy.rp2-imports-networking-module", {"module": module, "importer": importer, "observed_at": "import sweep"}, case)
            elif name == "import-stmt":
                ctx.count("sweep_import_statements_executed")
                ctx.distinct("import_sites", [os.path.relpath(event.get("importer", ""), package_real), event.get("module"), event.get("fromlist")])
                for module in [event.get("module", "")] + [f"{event.get('module', '')}.{x}" for x in event.get("fromlist", [])]:
                    if module in NETWORK_MODULES or module.split(".")[0] in NETWORK_MODULES:
                        ctx.violation("privacy.rp2-imports-networking-module", {"module": module, "importer": event.get("importer"), "observed_at": "import sweep"}, case)
            elif name.startswith(FORBIDDEN_EVENTS):
                ctx.violation("privacy.forbidden-interpreter-event", {"event": name, "args": event.get("args"), "observed_at": "import sweep"}, case)
    ctx.count("modules_swept", len(modules))
    ctx.count("import_statements_in_source", import_statements)
    ctx.count("sweep_imports_by_rp2_files", by_rp2)
    shutil.rmtree(work, ignore_errors=True)


def run_shard(ctx: Any) -> None:
    settings = SETTINGS[ctx.tier]
    if ctx.shard == 0:
        import_sweep(ctx)
    env_names = discover_env(ctx)
    for i in range(ctx.share(settings["cases"])):
        if ctx.time_left() < 5:
            break
        index = ctx.shard + i * ctx.nshards
        _one(ctx, scenario(ctx.rng("case", index), index, env_names), f"c18-{index}", strace=(index % settings["strace_every"] == 0))


def replay(ctx: Any, case: Dict[str, Any]) -> None:
    if case.get("import_sweep"):
        import_sweep(ctx)
        return
    _one(ctx, case, "replay", strace=True)


def coverage(merged: Dict[str, Any], tier: str) -> Dict[str, Any]:
    c = merged["counters"]
    return {
        "evaluations": c.get("executions", 0),
        "distinct_nontrivial": len(merged["sets"].get("nontrivial", ())),
        "events_checked": {
            "audited_cli_runs": c.get("audited_runs", 0),
            "import_events": c.get("import_events", 0),
            "imports_performed_by_rp2_files": c.get("imports_by_rp2_files", 0),
            "file_open_for_writing_events": c.get("write_events", 0),
            "rename_remove_mkdir_events": c.get("fs_events", 0),
            "runs_under_strace": c.get("strace_runs", 0),
            "strace_lines_judged": c.get("strace_lines", 0),
            "modules_imported_in_sweep": c.get("modules_swept", 0),
            "import_statements_in_source_ast": c.get("import_statements_in_source", 0),
            "sweep_imports_by_rp2_files": c.get("sweep_imports_by_rp2_files", 0),
            "import_statements_executed_by_rp2_files_in_cli_runs": c.get("import_statements_executed_by_rp2_files", 0),
            "import_statements_executed_in_sweep": c.get("sweep_import_statements_executed", 0),
            "distinct_import_sites_observed_executing": len(merged["sets"].get("import_sites", ())),
        },
        "run_kinds_and_exit_codes": sorted(merged["sets"].get("tag_kind", ())),
        "environment_variables_rp2_was_seen_reading": sorted(merged["sets"].get("tag_env_names_read_by_rp2", ())),
        "environment_variables_set_in_some_run": sorted(merged["sets"].get("tag_env_set", ())),
        "error_path_runs": c.get("error_path_runs", 0),
        "exception_types_on_error_paths": sorted(merged["sets"].get("tag_error_types", ())),
        "fault_classes_driven": sorted(merged["sets"].get("tag_fault_class", ())),
        "hard_errors_driven": sorted(merged["sets"].get("tag_hard_error", ())),
        "networking_modules_imported_by_non_rp2_code": sorted(merged["sets"].get("tag_network_modules_imported_by_others", ())),
    }
