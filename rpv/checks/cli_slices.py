"""CLI slices of C01-C10: the second observation point named by the anchors - the reports written by real
rp2_<country> runs (exit status, stderr, output directory, Gain / Loss Detail and the other tables), decoded into the
same records the in-process oracles judge."""

from __future__ import annotations

import copy
import os
from datetime import date, timedelta, timezone
from decimal import Decimal
from fractions import Fraction
from typing import Any, Dict, List, Optional, Tuple

from rpv import families
from rpv.checks.inproc_util import candidate_days, clean_cut
from rpv.cli_core import add_verbatim_duplicate, cli_histories, cli_profile, decode_trace, method_choice, parse_report_ts
from rpv.drive_cli import COUNTRY_LANGUAGES, COUNTRY_METHODS, Workspace
from rpv.gen import METHODS, dstr, own_years, parse_ts, schedule
from rpv.model import Model
from rpv.oracle.balance import overdraft
from rpv.oracle.reports import FullReport, num, snap, tax_report_rows
from rpv.oracle.trace import check_coverage, check_long_short, check_order, check_taxable, consumed_per_lot

REL9 = Fraction(1, 10**9)


def _close(a: Any, b: Any, rel: Fraction = REL9) -> bool:
    fa, fb = num(a), num(b)
    if fa is None or fb is None:
        return fa is None and fb is None
    return abs(fa - fb) <= rel * max(abs(fa), abs(fb), Fraction(1, 10**9))


def _case(hists: Dict[str, Any], country: str, args: List[str], ini_methods: Optional[Dict[int, str]], extra: Optional[Dict[str, Any]] = None) -> Dict[str, Any]:
    case = {"cli": True, "hists": hists, "country": country, "args": args, "ini_methods": {str(k): v for k, v in (ini_methods or {}).items()}}
    if extra:
        case.update(extra)
    return case


def _run(ctx: Any, ws: Workspace, hists: Dict[str, Any], country: str, args: List[str], ini_methods: Optional[Dict[int, str]], rng: Any = None) -> Any:
    ws.write(hists, accounting_methods=ini_methods, rng=rng)
    return ws.run(country, args)


def _language(case: Dict[str, Any]) -> str:
    args = case.get("args", [])
    if "-g" in args:
        return args[args.index("-g") + 1]
    return case.get("language") or COUNTRY_LANGUAGES[case.get("country", "us")][0]


def _full_report(res: Any, case: Any = None) -> Optional[FullReport]:
    path = res.report("rp2_full_report")
    language = case if isinstance(case, str) else (_language(case) if case else "en")
    return FullReport(path, language) if path else None


# ---------------------------------------------------------------------------------------------------------


def _c01_one(ctx: Any, case: Dict[str, Any], name: str) -> None:
    ws = Workspace(ctx.scratch, name)
    try:
        hists = case["hists"]
        ini_methods = {int(k): v for k, v in case["ini_methods"].items()} or None
        res = _run(ctx, ws, hists, case["country"], case["args"], ini_methods)
        ctx.count("executions")
        ctx.count("cli_runs")
        if res.exit != 0:
            ctx.count("unobservable")
            ctx.tag("tag_unobservable", f"cli exit {res.exit}: {res.stderr[-120:]}")
            return
        report = _full_report(res, case)
        if report is None:
            ctx.violation("cli.full-report-missing", {"files": res.files}, case)
            return
        sched = {int(k): v for k, v in case["schedule"].items()}
        for asset, hist in hists.items():
            model = Model(hist)
            trace, problems = decode_trace(report, asset, model)
            for p in problems:
                ctx.violation("cli.detail-table-undecodable", {"problem": p}, case)
            ctx.count("cli_fractions", len(trace))
            for v in check_order(model, trace, sched):
                ctx.violation(v["rule"], dict(v["detail"], observed_at="Gain / Loss Detail of the CLI's rp2_full_report.ods"), case, mechanism=v["detail"].get("mechanism", ""))
            legend = report.legend()
            expected_legend = ", ".join(f"{y}:{m.upper()}" for y, m in sched.items()) if len(sched) > 1 else next(iter(sched.values())).upper()
            ctx.tag("tag_cli_method_source", "-m" if "-m" in case["args"] else ("config" if ini_methods else "default"))
    finally:
        ws.cleanup()


def c01(ctx: Any, total: int) -> None:
    share = ctx.share(total)
    for i in range(share):
        if ctx.time_left() < 3:
            break
        index = ctx.shard + i * ctx.nshards
        rng = ctx.rng("cli", index)
        country = rng.choice(("us", "generic"))
        hists = cli_histories(rng, 1, cli_profile(p_earn=0.45, price_style="mixed"))
        args, ini_methods, sched, _ = method_choice(rng, country, hists)
        case = _case(hists, country, args, ini_methods, {"schedule": {str(k): v for k, v in sched.items()}})
        _c01_one(ctx, case, f"c01-{index}")


def c01_replay(ctx: Any, case: Dict[str, Any]) -> None:
    _c01_one(ctx, case, "replay")


# ---------------------------------------------------------------------------------------------------------


def _c02_one(ctx: Any, case: Dict[str, Any], name: str) -> None:
    ws = Workspace(ctx.scratch, name)
    try:
        hists = case["hists"]
        res = _run(ctx, ws, hists, case["country"], case["args"], {int(k): v for k, v in case.get("ini_methods", {}).items()} or None)
        ctx.count("executions")
        ctx.count("cli_runs")
        models = {a: Model(h) for a, h in hists.items()}
        overspent = [a for a, m in models.items() if m.overspend_instant() is not None]
        if overspent:
            ctx.count("cli_must_fail")
            if res.exit == 0:
                ctx.violation("coverage.cli-overspend-not-rejected", {"assets": overspent, "files": res.files}, case)
            elif res.files:
                ctx.violation("coverage.cli-figures-produced-despite-overspend", {"files": res.files}, case)
            elif not res.stderr.strip():
                ctx.violation("coverage.cli-no-error-message", {}, case)
            return
        if not all(overdraft(m).must_accept for m in models.values()):
            return
        if res.exit != 0:
            ctx.violation("coverage.cli-valid-history-rejected", {"exit": res.exit, "stderr": res.stderr[-400:]}, case)
            return
        report = _full_report(res, case)
        if report is None:
            ctx.violation("cli.full-report-missing", {"files": res.files}, case)
            return
        for asset, model in models.items():
            trace, problems = decode_trace(report, asset, model)
            for p in problems:
                ctx.violation("cli.detail-table-undecodable", {"problem": p}, case)
            ctx.count("cli_fractions", len(trace))
            for v in check_coverage(model, trace, complete=True):
                ctx.violation(v["rule"], dict(v["detail"], observed_at="CLI report"), case)
            # Sent/Sold percentage of the In-Flow table = consumed / amount of the lot
            consumed = consumed_per_lot(trace)
            lot_of_uid = {lot.uid: lot for lot in model.lots.values()}
            for i, row in enumerate(report.in_rows(asset)):
                lot = lot_of_uid.get(str(row["uid"]))
                if lot is None:
                    continue
                expected = consumed.get(lot.row, Fraction(0)) / lot.amount
                shown = num(row["sold_pct"])
                if shown is None:
                    shown = Fraction(0)
                    if expected >= Fraction(5, 10**14):
                        ctx.violation("coverage.cli-sold-percentage-blank", {"lot": lot.uid, "expected": float(expected)}, case)
                        continue
                if abs(shown - expected) > Fraction(1, 10**9):
                    ctx.violation("coverage.cli-sold-percentage", {"lot": lot.uid, "shown": float(shown), "expected": float(expected)}, case)
                ctx.count("cli_sold_pct_cells")
    finally:
        ws.cleanup()


def c02(ctx: Any, total: int) -> None:
    share = ctx.share(total)
    for i in range(share):
        if ctx.time_left() < 3:
            break
        index = ctx.shard + i * ctx.nshards
        rng = ctx.rng("cli", index)
        country = rng.choice(("us", "generic", "es", "ie", "jp"))
        hists = cli_histories(rng, rng.choice((1, 2)), cli_profile(p_earn=0.4))
        method = rng.choice(COUNTRY_METHODS[country])
        args = ["-m", method, "-g", rng.choice(COUNTRY_LANGUAGES[country])]
        ini_methods = None
        if index % 2 == 0:
            # the year -> method schedule comes from the config (entries in any order, a method may be repeated for several years)
            country = "us" if index % 4 == 0 else "generic"
            args = ["-m", method, "-g", "en"]
            years = sorted({y for h in hists.values() for y in own_years(h)})
            ini_methods = {1970: rng.choice(COUNTRY_METHODS[country])}
            for y in range(years[0] + 1, years[-1] + 2):
                if rng.random() < 0.6:
                    ini_methods[y] = ini_methods[max(ini_methods)] if rng.random() < 0.4 else rng.choice(COUNTRY_METHODS[country])
            args = args[2:]
            ctx.count("cli_runs_with_schedule_from_config")
        if i % 2 == 1:
            asset = rng.choice(sorted(hists))
            mutant = families.total_overspend(hists[asset], rng)
            if mutant is not None:
                hists = dict(hists, **{asset: mutant})
            if rng.random() < 0.5:
                args.append("-n")
        _c02_one(ctx, _case(hists, country, args, ini_methods), f"c02-{index}")


def c02_replay(ctx: Any, case: Dict[str, Any]) -> None:
    _c02_one(ctx, case, "replay")


# ---------------------------------------------------------------------------------------------------------


def _c03_one(ctx: Any, case: Dict[str, Any], name: str) -> None:
    ws = Workspace(ctx.scratch, name)
    try:
        hists = case["hists"]
        res = _run(ctx, ws, hists, "us", case["args"], None)
        ctx.count("executions")
        ctx.count("cli_runs")
        if res.exit != 0:
            ctx.count("unobservable")
            ctx.tag("tag_unobservable", f"cli exit {res.exit}: {res.stderr[-120:]}")
            return
        report = _full_report(res, case)
        tax_path = res.report("tax_report_us")
        if report is None or tax_path is None:
            ctx.violation("cli.report-missing", {"files": res.files}, case)
            return
        tax_rows = tax_report_rows(tax_path)
        for asset, hist in hists.items():
            model = Model(hist)
            trace, problems = decode_trace(report, asset, model)
            for p in problems:
                ctx.violation("cli.detail-table-undecodable", {"problem": p}, case)
            ids: List[int] = []
            types: Dict[int, str] = {}
            for f in trace:
                if f.event not in types:
                    ids.append(f.event)
                    types[f.event] = f.event_type
            violations, known = check_taxable(model, ids, types, trace)
            for v in violations:
                ctx.violation(v["rule"], dict(v["detail"], observed_at="Gain / Loss Detail of the CLI report"), case)
            ctx.count("cli_events", len(ids))
            # tax_report_us: every taxable event of the input appears (by unique id and direction) on some sheet
            seen = set()
            for rows in tax_rows.values():
                for r in rows:
                    if r.get("asset") == asset:
                        seen.add((str(r["event_uid"]), str(r["dir_type"]).split(" / ")[0]))
            for row, event in model.events.items():
                if row in model.tiny_fee_transfers:
                    continue
                if (event.uid, event.table) not in seen:
                    ctx.violation("taxable.cli-event-missing-from-tax-report", {"uid": event.uid, "type": event.type}, case)
    finally:
        ws.cleanup()


def c03(ctx: Any, total: int) -> None:
    share = ctx.share(total)
    for i in range(share):
        if ctx.time_left() < 3:
            break
        index = ctx.shard + i * ctx.nshards
        rng = ctx.rng("cli", index)
        hists = cli_histories(rng, rng.choice((1, 2)), cli_profile(p_earn=0.5, p_intra=0.3, p_in=0.4, p_out=0.3, max_events=16, p_self_transfer=0.1))
        if index % 4 == 2:
            # a row repeated verbatim right below itself (every cell, unique id and notes included) is a second transaction
            for hist in hists.values():
                if add_verbatim_duplicate(rng, hist, rng.choice((("IN",), ("IN", "OUT", "INTRA")))) is not None:
                    ctx.count("cli_sheets_with_a_row_repeated_verbatim")
        _c03_one(ctx, _case(hists, "us", ["-m", rng.choice(METHODS)], None), f"c03-{index}")


def c03_replay(ctx: Any, case: Dict[str, Any]) -> None:
    _c03_one(ctx, case, "replay")


# ---------------------------------------------------------------------------------------------------------


def _c04_one(ctx: Any, case: Dict[str, Any], name: str) -> None:
    """Proceeds / Cost Basis / Gain columns of the Gain / Loss Detail table and of tax_report_us.ods of a real run vs the
    exact rational values derived from the spreadsheet rows (doubles: 1e-12 relative)."""
    from rpv.oracle.trace import ExactStats, check_exact

    ws = Workspace(ctx.scratch, name)
    try:
        hists = case["hists"]
        res = _run(ctx, ws, hists, "us", case["args"], None)
        ctx.count("executions")
        ctx.count("cli_runs")
        if res.exit != 0:
            ctx.count("unobservable")
            ctx.tag("tag_unobservable", f"cli exit {res.exit}: {res.stderr[-120:]}")
            return
        report = _full_report(res, case)
        tax_path = res.report("tax_report_us")
        if report is None or tax_path is None:
            ctx.violation("cli.report-missing", {"files": res.files}, case)
            return
        tax_rows = tax_report_rows(tax_path)
        rel = Fraction(1, 10**14)  # a cell is the double nearest to an exact decimal: 1.2e-16 relative
        for asset, hist in hists.items():
            model = Model(hist)
            trace, problems = decode_trace(report, asset, model)
            for p in problems:
                ctx.violation("cli.detail-table-undecodable", {"problem": p}, case)
            stats = ExactStats()
            for v in check_exact(model, trace, stats, rel=rel):
                ctx.violation(v["rule"], dict(v["detail"], observed_at="Gain / Loss Detail of the CLI report"), case)
            ctx.count("cli_fractions", stats.fractions)
            if any(r["t"] == "IN" and r.get("cfee") and (r.get("fin_nf") or r.get("fin_wf")) for r in hist["rows"]):
                ctx.count("cli_lots_with_crypto_fee_and_supplied_fiat")
            # tax_report_us rows: same figures, located through the unique ids
            by_uid = {(e.uid, e.table): row for row, e in model.events.items()}
            lot_by_uid = {lot.uid: row for row, lot in model.lots.items()}
            for rows in tax_rows.values():
                for r in rows:
                    if r.get("asset") != asset or r.get("after_gap"):
                        continue
                    event_row = by_uid.get((str(r["event_uid"]), str(r["dir_type"]).split(" / ")[0]))
                    if event_row is None:
                        continue
                    event = model.events[event_row]
                    amount = snap(r["amount"]) or Fraction(0)
                    exp_proceeds = event.taxable_fiat * amount / event.amount
                    exp_cost = Fraction(0)
                    if r.get("lot_uid") not in (None, "") and str(r["lot_uid"]) in lot_by_uid:
                        lot = model.lots[lot_by_uid[str(r["lot_uid"])]]
                        exp_cost = lot.fiat_in_with_fee * amount / lot.amount
                    scale = max(abs(exp_proceeds), abs(exp_cost))
                    for field, exp in (("proceeds", exp_proceeds), ("cost", exp_cost), ("gain", exp_proceeds - exp_cost)):
                        got = num(r[field]) or Fraction(0)
                        if abs(got - exp) > rel * scale:
                            ctx.violation(f"exact.cli-tax-report-{field}", {"asset": asset, "event_uid": r["event_uid"], "lot_uid": r.get("lot_uid"), "shown": float(got), "expected": float(exp)}, case)
                    ctx.count("cli_tax_report_rows")
    finally:
        ws.cleanup()


def c04(ctx: Any, total: int) -> None:
    share = ctx.share(total)
    for i in range(share):
        if ctx.time_left() < 3:
            break
        index = ctx.shard + i * ctx.nshards
        rng = ctx.rng("cli", index)
        # half of the inputs carry numbers with up to 15 significant digits (large amounts at full cell precision)
        profile = cli_profile(p_optional_fiat=0.6, p_inconsistent_fiat=0.8, p_in_fiat_fee=0.4, p_out_crypto_fee=0.6, p_earn=0.3, max_events=14, min_events=5, mixed_tz=rng.random() < 0.3, amount_style="mixed" if i % 2 else "cli", price_style="mixed" if i % 2 else "small")
        hists = cli_histories(rng, rng.choice((1, 2)), profile)
        _c04_one(ctx, _case(hists, "us", ["-m", rng.choice(METHODS)], None), f"c04-{index}")


def c04_replay(ctx: Any, case: Dict[str, Any]) -> None:
    _c04_one(ctx, case, "replay")


# ---------------------------------------------------------------------------------------------------------


def _c05_one(ctx: Any, case: Dict[str, Any], name: str) -> None:
    ws = Workspace(ctx.scratch, name)
    try:
        hists = case["hists"]
        country = case["country"]
        env = {"LONG_TERM_CAPITAL_GAINS": str(case["ltcg"])} if country == "generic" else None
        ws.write(hists)
        res = ws.run(country, case["args"], env_extra=env)
        ctx.count("executions")
        ctx.count("cli_runs")
        if res.exit != 0:
            ctx.count("unobservable")
            ctx.tag("tag_unobservable", f"cli exit {res.exit}: {res.stderr[-120:]}")
            return
        language = case["language"]
        report = _full_report(res, case)
        if report is None:
            ctx.violation("cli.full-report-missing", {"files": res.files}, case)
            return
        period = case["period"]
        for asset, hist in hists.items():
            model = Model(hist)
            trace, problems = decode_trace(report, asset, model)
            for p in problems:
                ctx.violation("cli.detail-table-undecodable", {"problem": p}, case)
            ctx.count("cli_fractions", len(trace))
            for v in check_long_short(model, trace, period):
                ctx.violation(v["rule"], dict(v["detail"], observed_at=f"LONG/SHORT cells of rp2_{country}'s rp2_full_report.ods"), case)
            # the country tax report carries the same flag per fraction
            for report_name in ("tax_report_us", "tax_report_ie"):
                path = res.report(report_name)
                if not path:
                    continue
                flags = {}
                for rows in tax_report_rows(path).values():
                    for r in rows:
                        if r.get("asset") == asset:
                            flags[(str(r["event_uid"]), str(r["dir_type"]).split(" / ")[0], str(r["lot_uid"] or ""))] = r["kind"]
                for f in trace:
                    event = model.events[f.event]
                    lot_uid = model.lots[f.lot].uid if f.lot is not None else ""
                    got = flags.get((event.uid, event.table, lot_uid))
                    if got != ("LONG" if f.long else "SHORT"):
                        ctx.violation("longshort.tax-report-flag-differs", {"event": event.uid, "lot": lot_uid, "tax_report": got, "full_report": "LONG" if f.long else "SHORT"}, case)
                    ctx.count("cli_tax_report_flags")
        ctx.tag("tag_cli_country", country)
    finally:
        ws.cleanup()


def c05(ctx: Any, total: int) -> None:
    from rpv.checks.c05 import COUNTRIES, boundary_history

    share = ctx.share(total)
    for i in range(share):
        if ctx.time_left() < 3:
            break
        index = ctx.shard + i * ctx.nshards
        rng = ctx.rng("cli", index)
        # every other run is rp2_us (the one country whose tax report prints the flag as well), the others rotate
        country, env_value, period = COUNTRIES[0] if index % 2 == 0 else COUNTRIES[(index // 2) % len(COUNTRIES)]
        hist = boundary_history(rng, period if period is not None else 365)
        language = rng.choice(COUNTRY_LANGUAGES[country])
        args = ["-g", language]
        _c05_one(ctx, _case({"AAA": hist}, country, args, None, {"ltcg": env_value, "period": period, "language": language}), f"c05-{index}")


def c05_replay(ctx: Any, case: Dict[str, Any]) -> None:
    _c05_one(ctx, case, "replay")


# ---------------------------------------------------------------------------------------------------------


def _c06_one(ctx: Any, case: Dict[str, Any], name: str) -> None:
    ws = Workspace(ctx.scratch, name)
    try:
        hists = case["hists"]
        res = _run(ctx, ws, hists, case["country"], case["args"], None)
        ctx.count("executions")
        ctx.count("cli_runs")
        if res.exit != 0:
            ctx.count("unobservable")
            ctx.tag("tag_unobservable", f"cli exit {res.exit}: {res.stderr[-120:]}")
            return
        report = _full_report(res, case)
        if report is None:
            ctx.violation("cli.full-report-missing", {"files": res.files}, case)
            return
        summary = report.summary_lines()
        all_lines = []
        for asset in sorted(hists):
            lines = report.yearly_lines(asset)
            all_lines.extend(lines)
            # detail table of the same report (no from-date in this slice: detail rows = all fractions up to the to-date)
            sums: Dict[Tuple[Any, ...], List[Fraction]] = {}
            for d in report.detail_rows(asset):
                ts = parse_report_ts(d["event_ts"])
                if ts is None:
                    ctx.violation("cli.detail-timestamp-unreadable", {"value": str(d["event_ts"])}, case)
                    continue
                ttype = str(d["event_dir_type"]).split(" / ")[-1]
                key = (ts.year, asset, ttype, d["kind"])
                s = sums.setdefault(key, [Fraction(0)] * 4)
                for k, field in enumerate(("amount", "proceeds", "cost", "gain")):
                    s[k] += num(d[field]) or Fraction(0)
            seen = set()
            for line in lines:
                key = (int(line["year"]), line["asset"], line["type"], line["kind"])
                if key in seen:
                    ctx.violation("yearly.cli-duplicate-line", {"key": list(map(str, key))}, case)
                seen.add(key)
                if key not in sums:
                    ctx.violation("yearly.cli-line-without-detail-rows", {"key": list(map(str, key))}, case)
                    continue
                for k, field in enumerate(("amount", "proceeds", "cost", "gain")):
                    if not _close(line[field], sums[key][k]) and abs((num(line[field]) or 0) - sums[key][k]) > Fraction(1, 10**6):
                        ctx.violation(f"yearly.cli-{field}", {"key": list(map(str, key)), "line": float(num(line[field]) or 0), "detail_sum": float(sums[key][k])}, case)
                ctx.count("cli_lines")
            for key in sums:
                if key not in seen:
                    ctx.violation("yearly.cli-missing-line", {"key": list(map(str, key))}, case)
        # Summary sheet = concatenation of the per-asset tables
        if len(summary) != len(all_lines):
            ctx.violation("yearly.cli-summary-sheet-line-count", {"summary": len(summary), "per_asset_tables": len(all_lines)}, case)
        for s, l in zip(summary, all_lines):
            for field in ("year", "asset", "kind", "type"):
                if str(num(s[field]) if field == "year" else s[field]) != str(num(l[field]) if field == "year" else l[field]):
                    ctx.violation("yearly.cli-summary-sheet-differs", {"field": field, "summary": str(s[field]), "table": str(l[field])}, case)
            for field in ("gain", "amount", "proceeds", "cost"):
                if not _close(s[field], l[field]):
                    ctx.violation("yearly.cli-summary-sheet-differs", {"field": field, "summary": str(s[field]), "table": str(l[field])}, case)
    finally:
        ws.cleanup()


def c06(ctx: Any, total: int) -> None:
    share = ctx.share(total)
    for i in range(share):
        if ctx.time_left() < 3:
            break
        index = ctx.shard + i * ctx.nshards
        rng = ctx.rng("cli", index)
        hists = cli_histories(rng, rng.choice((1, 2, 3)), cli_profile(gap_style=rng.choice(("long", "medium", "boundary")), max_events=16, min_events=6))
        args = ["-m", rng.choice(METHODS)]
        days = [d for d in candidate_days(rng, next(iter(hists.values())), 4) if all(clean_cut(h, d) for h in hists.values())]
        if days and rng.random() < 0.5:
            args += ["-t", days[0].isoformat()]
        _c06_one(ctx, _case(hists, "us", args, None), f"c06-{index}")


def c06_replay(ctx: Any, case: Dict[str, Any]) -> None:
    _c06_one(ctx, case, "replay")


# ---------------------------------------------------------------------------------------------------------


def _c07_one(ctx: Any, case: Dict[str, Any], name: str) -> None:
    ws = Workspace(ctx.scratch, name)
    try:
        hists = case["hists"]
        res = _run(ctx, ws, hists, case["country"], case["args"], None)
        ctx.count("executions")
        ctx.count("cli_runs")
        if res.exit != 0:
            ctx.count("unobservable")
            ctx.tag("tag_unobservable", f"cli exit {res.exit}: {res.stderr[-120:]}")
            return
        report = _full_report(res, case)
        if report is None:
            ctx.violation("cli.full-report-missing", {"files": res.files}, case)
            return
        to_d = date.fromisoformat(case["to"]) if case.get("to") else None
        for asset, hist in hists.items():
            model = Model(hist)
            expected = model.balances(to_d)
            lines, totals = report.balances(asset)
            seen = set()
            for line in lines:
                account = (line["ex"], line["ho"])
                if account in seen:
                    ctx.violation("balance.cli-duplicate-account", {"account": list(account)}, case)
                seen.add(account)
                exp = expected.get(account)
                if exp is None:
                    ctx.violation("balance.cli-untouched-account-listed", {"account": list(account)}, case)
                    continue
                for field in ("acquired", "sent", "received", "final"):
                    if snap(line[field]) != exp[field]:
                        ctx.violation(f"balance.cli-{field}", {"account": list(account), "shown": str(line[field]), "expected": str(exp[field])}, case)
                ctx.count("cli_account_lines")
            for account in expected:
                if account not in seen:
                    ctx.violation("balance.cli-account-missing", {"account": list(account)}, case)
            holders: Dict[str, Fraction] = {}
            for account, b in expected.items():
                holders[account[1]] = holders.get(account[1], Fraction(0)) + b["final"]
            shown_totals = {t["holder"]: snap(t["final"]) for t in totals}
            if shown_totals != holders:
                ctx.violation("balance.cli-holder-totals", {"shown": {k: str(v) for k, v in shown_totals.items()}, "expected": {k: str(v) for k, v in holders.items()}}, case)
    finally:
        ws.cleanup()


def c07(ctx: Any, total: int) -> None:
    share = ctx.share(total)
    for i in range(share):
        if ctx.time_left() < 3:
            break
        index = ctx.shard + i * ctx.nshards
        rng = ctx.rng("cli", index)
        hists = cli_histories(rng, rng.choice((1, 2)), cli_profile(n_exchanges=3, n_holders=2, p_intra=0.35, max_events=16, min_events=5))
        args = ["-m", rng.choice(METHODS)]
        extra: Dict[str, Any] = {}
        days = [d for d in candidate_days(rng, next(iter(hists.values())), 4) if all(clean_cut(h, d) for h in hists.values())]
        if days and rng.random() < 0.5:
            args += ["-t", days[0].isoformat()]
            extra["to"] = days[0].isoformat()
        _c07_one(ctx, _case(hists, "us", args, None, extra), f"c07-{index}")


def c07_replay(ctx: Any, case: Dict[str, Any]) -> None:
    _c07_one(ctx, case, "replay")


# ---------------------------------------------------------------------------------------------------------


def _c08_one(ctx: Any, case: Dict[str, Any], name: str) -> None:
    ws = Workspace(ctx.scratch, name)
    try:
        hists = case["hists"]
        res = _run(ctx, ws, hists, case["country"], case["args"], None)
        ctx.count("executions")
        ctx.count("cli_runs")
        allow = "-n" in case["args"]
        verdicts = {a: overdraft(Model(h)) for a, h in hists.items()}
        if any(Model(h).overspend_instant() is not None for h in hists.values()):
            return
        must_reject = any(v.must_reject for v in verdicts.values())
        must_accept = all(v.must_accept for v in verdicts.values())
        if allow:
            if res.exit != 0:
                ctx.violation("overdraft.cli-rejected-although-n-given", {"stderr": res.stderr[-400:]}, case)
                return
            report = _full_report(res, case)
            if report is None:
                ctx.violation("cli.full-report-missing", {"files": res.files}, case)
                return
            for asset, v in verdicts.items():
                expected = Model(hists[asset]).balances()
                lines, _ = report.balances(asset)
                shown = {(l["ex"], l["ho"]): snap(l["final"]) for l in lines}
                for account in v.negative_final:
                    if shown.get(account) != expected[account]["final"]:
                        ctx.violation("overdraft.cli-negative-balance-not-reported", {"account": list(account), "shown": str(shown.get(account))}, case)
                    else:
                        ctx.count("cli_negative_reported")
        elif must_reject:
            ctx.count("cli_must_reject")
            if res.exit == 0:
                ctx.violation("overdraft.cli-not-rejected", {"files": res.files}, case)
            else:
                if res.files:
                    ctx.violation("overdraft.cli-report-produced-despite-rejection", {"files": res.files}, case)
                named = any(f'"{a[0]}"' in res.stderr and f'"{a[1]}"' in res.stderr for v in verdicts.values() for a in v.overdrawn_accounts)
                if not named and "went negative" not in res.stderr:
                    ctx.violation("overdraft.cli-error-does-not-name-account", {"stderr": res.stderr[-400:]}, case)
        elif must_accept:
            ctx.count("cli_must_accept")
            if res.exit != 0:
                ctx.violation("overdraft.cli-valid-history-rejected", {"stderr": res.stderr[-400:]}, case)
    finally:
        ws.cleanup()


def c08(ctx: Any, total: int) -> None:
    from rpv.checks.c08 import mutants

    share = ctx.share(total)
    for i in range(share):
        if ctx.time_left() < 3:
            break
        index = ctx.shard + i * ctx.nshards
        rng = ctx.rng("cli", index)
        hists = cli_histories(rng, rng.choice((1, 2)), cli_profile(n_exchanges=3, n_holders=1, p_intra=0.3, max_events=14, min_events=5, allow_in_crypto_fee=False))
        args = ["-m", rng.choice(METHODS)]
        if i % 3:
            asset = rng.choice(sorted(hists))
            ms = [m for m in mutants(hists[asset], rng) if Model(m).overspend_instant() is None]
            if ms:
                hists = dict(hists, **{asset: rng.choice(ms)})
            if i % 3 == 2:
                args.append("-n")
        if index % 8 == 5:
            # every account ends <= 0 while lots stay partly unsold (stale exchange-supplied crypto_out_with_fee): with -n the run
            # must still complete and report the negative balance (FX7)
            hists = dict(hists, **{sorted(hists)[0]: families.stale_with_fee_overdraft(rng, sorted(hists)[0])})
            args = ["-m", rng.choice(METHODS), "-n"]
            ctx.count("cli_runs_with_no_positive_balance_but_unsold_lots")
        if index % 8 == 3:
            # an acquisition's crypto fee (a fee-typed debit the parser derives from the IN row) overdraws its account
            hists = dict(hists, **{sorted(hists)[0]: families.in_fee_overdraft(rng, sorted(hists)[0])})
            args = ["-m", rng.choice(METHODS)] + (["-n"] if (index // 8) % 3 == 2 else [])
            ctx.count("cli_runs_with_in_fee_overdraft")
        if "-n" not in args and rng.random() < 0.5:
            # a from-date never changes the verdict (balances cover all history up to the to-date)
            days = sorted({parse_ts(r["ts"]).date() for h in hists.values() for r in h["rows"]})
            args += ["-f", rng.choice((days[len(days) // 2], days[-1], days[-1] + timedelta(days=1))).isoformat()]
            ctx.count("cli_runs_with_from_date")
        _c08_one(ctx, _case(hists, "us", args, None), f"c08-{index}")


def c08_replay(ctx: Any, case: Dict[str, Any]) -> None:
    _c08_one(ctx, case, "replay")


# ---------------------------------------------------------------------------------------------------------


def _matrices(path: str, skip_legend_rows: Tuple[str, ...] = ()) -> Dict[str, List[List[Any]]]:
    from rpv.ods_io import read_ods

    result = {}
    for name, sheet in read_ods(path).items():
        m = sheet.matrix()
        if skip_legend_rows:
            m = [row for row in m if not (row and row[0] in skip_legend_rows)]
        result[name] = m
    return result


def _c09_one(ctx: Any, case: Dict[str, Any], name: str) -> None:
    """rp2_us -t D on the full spreadsheet vs the same command without -t on the spreadsheet truncated at D."""
    ws_a = Workspace(ctx.scratch, name + "-a")
    ws_b = Workspace(ctx.scratch, name + "-b")
    try:
        hists = case["hists"]
        day = date.fromisoformat(case["to"])
        truncated = {a: dict(h, rows=[copy.deepcopy(r) for r in h["rows"] if parse_ts(r["ts"]).date() <= day]) for a, h in hists.items()}
        if not all(any(r["t"] == "IN" for r in h["rows"]) for h in truncated.values()):
            return
        ws_a.write(copy.deepcopy(hists))
        ws_b.write(truncated)
        a = ws_a.run(case["country"], case["args"] + ["-t", case["to"]])
        b = ws_b.run(case["country"], case["args"])
        ctx.count("executions", 2)
        ctx.count("cli_runs", 2)
        if a.exit != 0 or b.exit != 0:
            ctx.count("unobservable")
            ctx.tag("tag_unobservable", f"cli exit {a.exit}/{b.exit}: {(a.stderr if a.exit else b.stderr)[-120:]}")
            return
        ctx.count("cli_pairs")
        for report_name in ("rp2_full_report", "tax_report_us", "open_positions"):
            pa, pb = a.report(report_name), b.report(report_name)
            if not pa or not pb:
                ctx.violation("cli.report-missing", {"report": report_name}, case)
                continue
            ma = _matrices(pa, ("To Date Filter",))
            mb = _matrices(pb, ("To Date Filter",))
            if list(ma) != list(mb):
                ctx.violation("stability.cli-sheets-differ", {"report": report_name, "to_date_run": list(ma), "truncated_run": list(mb)}, case)
                continue
            for sheet in ma:
                if ma[sheet] != mb[sheet]:
                    diff = next((i for i, (x, y) in enumerate(zip(ma[sheet], mb[sheet])) if x != y), min(len(ma[sheet]), len(mb[sheet])))
                    ctx.violation(
                        "stability.cli-to-date-differs-from-truncated",
                        {"report": report_name, "sheet": sheet, "row": diff + 1, "to_date_run": str(ma[sheet][diff : diff + 1])[:300], "truncated_run": str(mb[sheet][diff : diff + 1])[:300]},
                        case,
                    )
                    break
                ctx.count("cli_sheets_compared")
    finally:
        ws_a.cleanup()
        ws_b.cleanup()


def c09(ctx: Any, total: int) -> None:
    share = ctx.share(total)
    for i in range(share):
        if ctx.time_left() < 4:
            break
        index = ctx.shard + i * ctx.nshards
        rng = ctx.rng("cli", index)
        # rows are written in time order here: sheet row numbers then agree between the full and the truncated file for
        # the IN table only, but reports never show row numbers
        # several assets whose sheets share row numbers (state kept between assets of one run - e.g. in the method objects rp2_main
        # shares - lets transactions added to one asset after T change another asset's earlier pairings)
        hists = cli_histories(rng, rng.choice((1, 2, 2, 3, 3)), cli_profile(max_events=14, min_events=6, gap_style=rng.choice(("medium", "long")), allow_in_crypto_fee=False, p_in=0.55, p_out=0.35, p_intra=0.1))
        days = [d for d in candidate_days(rng, next(iter(hists.values())), 8) if all(clean_cut(h, d) for h in hists.values()) and all(any(r["t"] == "IN" and parse_ts(r["ts"]).date() <= d for r in h["rows"]) for h in hists.values())]
        if not days:
            continue
        _c09_one(ctx, _case(hists, "us", ["-m", rng.choice(METHODS)], None, {"to": days[0].isoformat()}), f"c09-{index}")


def c09_replay(ctx: Any, case: Dict[str, Any]) -> None:
    _c09_one(ctx, case, "replay")


# ---------------------------------------------------------------------------------------------------------


def _c10_one(ctx: Any, case: Dict[str, Any], name: str) -> None:
    """rp2_us -f F -t T vs the unfiltered run and the -t T run on the same files."""
    ws = Workspace(ctx.scratch, name)
    try:
        hists = case["hists"]
        ws.write(hists, accounting_methods={int(k): v for k, v in case.get("ini_methods", {}).items()} or None)
        from_s, to_s = case["window"]
        window_args = (["-f", from_s] if from_s else []) + (["-t", to_s] if to_s else [])
        base = ws.run(case["country"], case["args"])
        to_only = ws.run(case["country"], case["args"] + (["-t", to_s] if to_s else []))
        warmup = None
        if case.get("warm") and to_s and from_s:
            # the filtered run is the second one in its interpreter: the first processed the same files with another window
            warmup = [list(case["args"]) + ["-t", to_s, "-o", ws.new_out(), ws.ini, ws.ods]]
            ctx.count("cli_filtered_runs_made_second_in_one_interpreter")
        filtered = ws.run(case["country"], case["args"] + window_args, warmup=warmup)
        ctx.count("executions", 3)
        ctx.count("cli_runs", 3)
        if base.exit != 0 or to_only.exit != 0:
            ctx.count("unobservable")
            ctx.tag("tag_unobservable", f"cli exit {base.exit}/{to_only.exit}")
            return
        if filtered.exit != 0:
            # totality under filters is C16's subject; here the pair is simply not observable
            ctx.count("unobservable")
            ctx.tag("tag_unobservable", f"filtered cli exit {filtered.exit}: {filtered.stderr[-160:]}")
            return
        ctx.count("cli_pairs")
        rb, rt, rf = _full_report(base, case), _full_report(to_only, case), _full_report(filtered, case)
        if rb is None or rt is None or rf is None:
            ctx.violation("cli.full-report-missing", {}, case)
            return
        lo = date.fromisoformat(from_s) if from_s else date(1970, 1, 1)
        hi = date.fromisoformat(to_s) if to_s else date(9999, 12, 31)
        figure_fields = ("amount", "gain", "kind", "event_ts", "event_dir_type", "event_pct", "proceeds", "event_spot", "event_uid", "lot_ts", "lot_pct", "lot_fiat", "lot_fee", "cost", "lot_spot", "lot_uid", "running")
        for asset, hist in hists.items():
            unfiltered_rows = rb.detail_rows(asset)
            expected = [d for d in unfiltered_rows if (parse_report_ts(d["event_ts"]) is not None and lo <= parse_report_ts(d["event_ts"]).date() <= hi)]
            got_rows = rf.detail_rows(asset)
            got = got_rows
            if len(got) != len(expected):
                ctx.violation("filter.cli-detail-rows", {"asset": asset, "shown": len(got), "expected": len(expected)}, case)
            else:
                for g, e in zip(got, expected):
                    # a hidden transaction's cells are plain doubles, a visible one's are link payloads at full precision
                    bad = [f for f in figure_fields if not _same_figure(g[f], e[f])]
                    if bad:
                        ctx.violation("filter.cli-detail-figures", {"asset": asset, "fields": bad, "shown": [str(g[f]) for f in bad][:4], "unfiltered": [str(e[f]) for f in bad][:4], "event": str(g["event_uid"]), "lot": str(g["lot_uid"])}, case)
                        break
            ctx.count("cli_detail_rows_compared", len(got))
            # labels, balances, average price reflect all history up to the to-date: equal to the -t run
            labels_t = {(d["event_uid"], d["event_dir_type"], d["lot_uid"]): (d["event_note"], d["lot_note"]) for d in rt.detail_rows(asset)}
            for d in got_rows:
                if labels_t.get((d["event_uid"], d["event_dir_type"], d["lot_uid"])) != (d["event_note"], d["lot_note"]):
                    ctx.violation("filter.cli-fraction-labels", {"asset": asset, "shown": [d["event_note"], d["lot_note"]], "to_only": labels_t.get((d["event_uid"], d["event_dir_type"], d["lot_uid"]))}, case)
                    break
            if rf.balances(asset) != rt.balances(asset):
                ctx.violation("filter.cli-balances-depend-on-from-date", {"asset": asset}, case)
            if rf.average_price(asset) != rt.average_price(asset):
                ctx.violation("filter.cli-average-price-depends-on-from-date", {"asset": asset}, case)
            strip = lambda lines: [{k: v for k, v in l.items() if k != "sheet_row"} for l in lines]
            expected_lines = [l for l in strip(rt.yearly_lines(asset)) if int(l["year"]) >= lo.year]
            if strip(rf.yearly_lines(asset)) != expected_lines:
                ctx.violation("filter.cli-yearly-lines", {"asset": asset, "shown": len(rf.yearly_lines(asset)), "expected": len(expected_lines)}, case)
            # the Summary sheet carries the same lines (whole years from the from-date's year on), whether or not a year has a
            # visible detail row to link to
            def summary_of(report: FullReport) -> List[Tuple[Any, ...]]:
                return [(int(num(l["year"]) or 0), str(l["kind"]), str(l["type"]), *(num(l[k]) for k in ("amount", "proceeds", "cost", "gain"))) for l in report.summary_lines() if str(l["asset"]) == asset]

            expected_summary = [l for l in summary_of(rt) if l[0] >= lo.year]
            shown_summary = summary_of(rf)
            if len(shown_summary) != len(expected_summary) or any(a[:3] != b[:3] or any(not _same_figure(x, y) for x, y in zip(a[3:], b[3:])) for a, b in zip(shown_summary, expected_summary)):
                ctx.violation("filter.cli-summary-sheet-lines", {"asset": asset, "shown": [list(map(str, l[:3])) for l in shown_summary][:6], "expected": [list(map(str, l[:3])) for l in expected_summary][:6]}, case)
            ctx.count("cli_summary_lines_compared", len(shown_summary))
            # transactions shown
            for table, rows_f, rows_b in (("IN", rf.in_rows(asset), rb.in_rows(asset)), ("OUT", rf.out_rows(asset), rb.out_rows(asset)), ("INTRA", rf.intra_rows(asset), rb.intra_rows(asset))):
                exp = [r["uid"] for r in rows_b if parse_report_ts(r["ts"]) is not None and lo <= parse_report_ts(r["ts"]).date() <= hi]
                if [r["uid"] for r in rows_f] != exp:
                    ctx.violation("filter.cli-rows-shown", {"asset": asset, "table": table, "shown": [r["uid"] for r in rows_f], "expected": exp}, case)
    finally:
        ws.cleanup()


def _same_figure(a: Any, b: Any) -> bool:
    na, nb = (num(a) if not isinstance(a, str) else None), (num(b) if not isinstance(b, str) else None)
    if na is not None and nb is not None:
        return abs(na - nb) <= Fraction(1, 10**12) * max(abs(na), abs(nb), Fraction(1, 10**6))
    return str(a if a is not None else "") == str(b if b is not None else "")


def c10(ctx: Any, total: int) -> None:
    share = ctx.share(total)
    for i in range(share):
        if ctx.time_left() < 5:
            break
        index = ctx.shard + i * ctx.nshards
        rng = ctx.rng("cli", index)
        hists = cli_histories(rng, rng.choice((1, 2)), cli_profile(max_events=14, min_events=6, gap_style=rng.choice(("medium", "long", "mixed"))))
        first = next(iter(hists.values()))
        days = candidate_days(rng, first, 10)
        clean = [d for d in days if all(clean_cut(h, d) for h in hists.values())]
        if not clean:
            continue
        to_d = rng.choice(clean)
        from_candidates = [d for d in days if d <= to_d]
        from_d = rng.choice(from_candidates) if from_candidates else to_d
        if rng.random() < 0.35:
            # a from-date right after an asset's last transaction of some year: that year keeps its summary lines (whole years
            # from the from-date's year on) although none of its rows is shown
            last_of_year: Dict[int, date] = {}
            for r in first["rows"]:
                d = parse_ts(r["ts"]).date()
                last_of_year[d.year] = max(d, last_of_year.get(d.year, d))
            options = [d + timedelta(days=1) for d in last_of_year.values() if (d + timedelta(days=1)).year == d.year and d + timedelta(days=1) <= to_d]
            if options:
                from_d = rng.choice(options)
        window = [from_d.isoformat(), to_d.isoformat()] if rng.random() < 0.7 else [from_d.isoformat(), None]
        args, ini_methods = ["-m", rng.choice(METHODS)], None
        if index % 2:
            # the year -> method schedule comes from the config file: pairing starts at the beginning of the history with each
            # year's method, wherever the window starts
            years = sorted({y for h in hists.values() for y in own_years(h)})
            for _ in range(6):
                ini_methods = schedule(rng, years[0], years[-1])
                if len(ini_methods) > 1 and sorted(ini_methods)[1] <= from_d.year:
                    break
            if len(ini_methods) == 1:
                ini_methods = {1970: next(iter(ini_methods.values()))}
            args = []
            ctx.count("cli_cases_with_schedule_from_config")
            if len(ini_methods) > 1 and sorted(ini_methods)[1] <= from_d.year:
                ctx.count("cli_cases_with_from_date_after_a_method_change")
        if index % 4 == 3:
            # directed: a lot left partly consumed at a year boundary where the configured method changes, window starting after it
            hist, ini_methods = families.year_boundary_switch(rng)
            hists = {hist["asset"]: hist}
            second = sorted(ini_methods)[1]
            from_d = rng.choice((date(second, 1, 1), date(second, 1, 2), date(second, 2, 28), date(second + 1, 1, 1)))
            window = [from_d.isoformat(), rng.choice((None, None, date(second, 12, 31).isoformat(), date(second + 2, 6, 30).isoformat()))]
            if window[1] is not None and window[1] < window[0]:
                window[1] = None
            args = []
            ctx.count("cli_cases_with_from_date_after_a_method_change")
        _c10_one(ctx, _case(hists, "us", args, ini_methods, {"window": window, "warm": index % 3 == 0}), f"c10-{index}")


def c10_replay(ctx: Any, case: Dict[str, Any]) -> None:
    _c10_one(ctx, case, "replay")
