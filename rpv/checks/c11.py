"""C11 - parsed transactions equal the spreadsheet rows for any column layout.

Exactly-once, field-by-field checker: the generator owns the ground-truth rows and the layout; the InputData returned by
the real parse_ods is compared with them. CLI slice: reports of a random-layout run equal those of the canonical layout.
"""

from __future__ import annotations

import copy
import os
import random
from datetime import timezone
from fractions import Fraction
from typing import Any, Dict, List, Optional, Tuple

from rpv import ods_io
from rpv.cli_core import add_verbatim_duplicate, cli_histories, cli_profile
from rpv.drive_cli import Workspace
from rpv.drive_inproc import frac
from rpv.gen import METHODS, parse_ts
from rpv.model import Model

PROPERTY_ID = "C11"
LEVEL = "exploration"
RULE = (
    "per case a random layout (per table a random injective field->column map whose first column holds a mandatory "
    "non-numeric field, optional fields mapped or omitted, 0-5 unmapped junk columns with decoy numbers, any order of the "
    "IN/OUT/INTRA tables, 0-3 blank rows between tables, empty OUT/INTRA tables present or absent) x generated valid rows "
    "(all types, values with up to 11 decimals and 15 significant digits, optional cells filled or empty, crypto fees on "
    "acquisitions, in a quarter of the cases a row repeated verbatim right below itself); the real Configuration + parse_ods output is compared field by field with the ground truth: one "
    "transaction per row (id = sheet row), documented defaults for empty optional cells, acquisition + artificial FEE row for "
    "crypto fees. Non-trivial = layout that is not the identity and rows whose mapped numeric cells are pairwise distinct; "
    "distinct = hash of (layout, rows)"
)
ASSUMPTIONS = [
    "numbers have <= 15 significant digits and <= 11 decimals (cells are doubles; the parser reads them with %.11f)",
    "the header line of every table does not parse as a transaction",
]
SETTINGS: Dict[str, Dict[str, Any]] = {
    "quick": {"cases": 1200, "cli_cases": 32, "budget_s": 60, "minimums": {"rows_checked": 8000, "fields_checked": 80000, "nontrivial": 250, "artificial_fee_rows": 150, "cli_pairs": 16, "sheets_with_a_row_repeated_verbatim": 120}},
    "thorough": {"cases": 30000, "cli_cases": 300, "budget_s": 420, "minimums": {"rows_checked": 48000, "fields_checked": 480000, "nontrivial": 1800, "artificial_fee_rows": 900, "cli_pairs": 60, "sheets_with_a_row_repeated_verbatim": 600}},
}
OPTIONAL_KEYS = {
    "IN": {"cfee": "crypto_fee", "fin_nf": "fiat_in_no_fee", "fin_wf": "fiat_in_with_fee", "ffee": "fiat_fee", "uid": "unique_id", "notes": "notes"},
    "OUT": {"cout_wf": "crypto_out_with_fee", "fout_nf": "fiat_out_no_fee", "ffee": "fiat_fee", "uid": "unique_id", "notes": "notes"},
    "INTRA": {"uid": "unique_id", "notes": "notes"},
}
REL = Fraction(1, 10**27)


def apply_layout_to_rows(hists: Dict[str, Dict[str, Any]], layout: Dict[str, Any]) -> None:
    """A field whose column the layout omits does not exist in the sheet: blank it in the ground truth too."""
    for hist in hists.values():
        for r in hist["rows"]:
            for key, field in OPTIONAL_KEYS[r["t"]].items():
                if field not in layout["columns"][r["t"]]:
                    r[key] = "" if key in ("uid", "notes") else None


DOUBLE = Fraction(1, 2**49)
EXACT_BELOW = Fraction(10**4)


def _eq(got: Any, expected: Fraction, operands: Tuple[Fraction, ...] = ()) -> bool:
    """Cells are doubles read back with %.11f: a value below 1e4 with <= 11 decimals must come out exactly; above that
    the 11th decimal carries the double's own representation error (relative 2^-53), which is all a cell can hold."""
    g = frac(got)
    if g == expected:
        return True
    big = abs(expected) >= EXACT_BELOW or any(abs(o) >= EXACT_BELOW for o in operands)
    tolerance = (DOUBLE if big else REL) * max(abs(g), abs(expected))
    return abs(g - expected) <= tolerance


def compare(input_data: Any, hist: Dict[str, Any], stats: Dict[str, int]) -> List[Tuple[str, Dict[str, Any]]]:
    out: List[Tuple[str, Dict[str, Any]]] = []
    model = Model(hist)
    by_row = {r["row"]: r for r in hist["rows"]}
    parsed = {"IN": list(input_data.unfiltered_in_transaction_set), "OUT": list(input_data.unfiltered_out_transaction_set), "INTRA": list(input_data.unfiltered_intra_transaction_set)}
    artificial = [t for t in parsed["OUT"] if t.row < 0]
    parsed["OUT"] = [t for t in parsed["OUT"] if t.row >= 0]
    for table in ("IN", "OUT", "INTRA"):
        expected_rows = sorted(r["row"] for r in hist["rows"] if r["t"] == table)
        got_rows = sorted(t.row for t in parsed[table])
        if got_rows != expected_rows:
            out.append(("parse.rows-read", {"table": table, "got": got_rows, "expected": expected_rows}))
            continue
        for t in parsed[table]:
            r = by_row[t.row]
            stats["rows"] += 1
            fields: List[Tuple[str, Any, Any, bool]] = []  # name, got, expected, numeric
            ts = parse_ts(r["ts"])
            fields.append(("timestamp", (t.timestamp, t.timestamp.utcoffset()), (ts, ts.utcoffset()), False))
            fields.append(("asset", t.asset, hist["asset"], False))
            fields.append(("unique_id", t.unique_id, r.get("uid") or "", False))
            if table == "IN":
                lot = model.lots[t.row]
                fields += [
                    ("exchange", t.exchange, r["ex"], False),
                    ("holder", t.holder, r["ho"], False),
                    ("transaction_type", t.transaction_type.value.upper(), r["type"], False),
                    ("spot_price", t.spot_price, lot.spot, True),
                    ("crypto_in", t.crypto_in, lot.amount, True),
                    # an acquisition with a crypto fee keeps fee 0 in crypto and the fee's fiat value
                    ("crypto_fee", t.crypto_fee, Fraction(0), True),
                    ("fiat_fee", t.fiat_fee, lot.fiat_fee, True),
                    ("fiat_in_no_fee", t.fiat_in_no_fee, lot.fiat_in_no_fee, True),
                    ("fiat_in_with_fee", t.fiat_in_with_fee, lot.fiat_in_with_fee, True),
                ]
                if not (r.get("cfee") and Fraction(r["cfee"]) > 0):
                    fields.append(("notes", t.notes, r.get("notes") or "", False))
            elif table == "OUT":
                cout, cfee, spot = Fraction(r["cout"]), Fraction(r["cfee"]), Fraction(r["spot"])
                fields += [
                    ("exchange", t.exchange, r["ex"], False),
                    ("holder", t.holder, r["ho"], False),
                    ("transaction_type", t.transaction_type.value.upper(), r["type"], False),
                    ("spot_price", t.spot_price, spot, True),
                    ("crypto_out_no_fee", t.crypto_out_no_fee, cout, True),
                    ("crypto_fee", t.crypto_fee, cfee, True),
                    ("crypto_out_with_fee", t.crypto_out_with_fee, Fraction(r["cout_wf"]) if r.get("cout_wf") else cout + cfee, True),
                    ("fiat_out_no_fee", t.fiat_out_no_fee, Fraction(r["fout_nf"]) if r.get("fout_nf") else cout * spot, True),
                    ("fiat_fee", t.fiat_fee, Fraction(r["ffee"]) if r.get("ffee") else cfee * spot, True),
                    ("notes", t.notes, r.get("notes") or "", False),
                ]
            else:
                spot = Fraction(r["spot"]) if r.get("spot") not in (None, "") else Fraction(0)
                fields += [
                    ("from_exchange", t.from_exchange, r["fex"], False),
                    ("from_holder", t.from_holder, r["fho"], False),
                    ("to_exchange", t.to_exchange, r["tex"], False),
                    ("to_holder", t.to_holder, r["tho"], False),
                    ("spot_price", t.spot_price, spot, True),
                    ("crypto_sent", t.crypto_sent, Fraction(r["sent"]), True),
                    ("crypto_received", t.crypto_received, Fraction(r["recv"]), True),
                    ("notes", t.notes, r.get("notes") or "", False),
                ]
            operands = tuple(Fraction(r[k]) for k in ("spot", "cin", "cfee", "cout", "sent", "recv", "ffee", "fin_nf") if r.get(k) not in (None, ""))
            for name, got, expected, numeric in fields:
                stats["fields"] += 1
                ok = _eq(got, expected, operands) if numeric else got == expected
                if not ok:
                    out.append(("parse.field", {"table": table, "row": t.row, "field": name, "got": str(got), "expected": str(expected)}))
    # artificial fee-only rows: one per acquisition with a crypto fee, same instant / account / unique id, amount = fee
    expected_fees = sorted((r for r in hist["rows"] if r["t"] == "IN" and r.get("cfee") and Fraction(r["cfee"]) > 0), key=lambda r: r["row"])
    if len(artificial) != len(expected_fees):
        out.append(("parse.artificial-fee-rows", {"got": len(artificial), "expected": len(expected_fees)}))
    else:
        ids = sorted(t.row for t in artificial)
        if ids != sorted(set(ids)) or any(i >= 0 for i in ids):
            out.append(("parse.artificial-ids", {"ids": ids}))
        remaining = list(artificial)
        for r in expected_fees:
            stats["artificial"] += 1
            ts = parse_ts(r["ts"])
            match = next(
                (
                    t
                    for t in remaining
                    if t.unique_id == (r.get("uid") or "")
                    and t.timestamp == ts
                    and t.exchange == r["ex"]
                    and t.holder == r["ho"]
                    and t.transaction_type.value.upper() == "FEE"
                    and _eq(t.crypto_fee, Fraction(r["cfee"]))
                    and _eq(t.crypto_out_no_fee, Fraction(0))
                    and _eq(t.crypto_out_with_fee, Fraction(r["cfee"]))
                    and _eq(t.spot_price, Fraction(r["spot"]))
                ),
                None,
            )
            if match is None:
                out.append(("parse.artificial-fee-row-mismatch", {"acquisition_row": r["row"], "fee": r["cfee"]}))
            else:
                remaining.remove(match)
    return out


def _numeric_distinct(hist: Dict[str, Any], layout: Dict[str, Any]) -> bool:
    keys = {"IN": ("spot", "cin", "cfee", "fin_nf", "fin_wf", "ffee"), "OUT": ("spot", "cout", "cfee", "cout_wf", "fout_nf", "ffee"), "INTRA": ("spot", "sent", "recv")}
    for r in hist["rows"]:
        values = [Fraction(r[k]) for k in keys[r["t"]] if r.get(k) not in (None, "")]
        if len(values) != len(set(values)):
            return False
    return True


def make_case(rng: random.Random) -> Dict[str, Any]:
    layout = ods_io.random_layout(rng)
    profile = cli_profile(
        amount_style=rng.choice(("cli", "dec11", "mixed")),
        price_style=rng.choice(("small", "wide", "mixed")),
        p_optional_fiat=0.7,
        p_inconsistent_fiat=1.0,
        p_in_fiat_fee=0.5,
        p_out_crypto_fee=0.6,
        p_rounded_out_total=0.5,
        max_events=rng.choice((6, 12, 30)),
        min_events=3,
        n_exchanges=3,
        n_holders=2,
        tie_prob=0.1,
        mixed_tz=rng.random() < 0.5,
    )
    hists = cli_histories(rng, rng.randint(1, 2), profile)
    for hist in hists.values():
        for i, r in enumerate(hist["rows"]):
            if rng.random() < 0.5:
                # free text: plain, non-ASCII, quotes / separators, looks like a number or a table keyword, long
                r["notes"] = rng.choice((f"note {i} of {hist['asset']}", f"caf\u00e9 \u2615 \u65e5\u672c {i}", f'"quoted", semi;colon, tab\there {i}', f"{i}", "TABLE END", "IN", f"x{i} " + "very long " * 30))
    if rng.random() < 0.25:
        # a row repeated verbatim right below itself is a second transaction ("no row is skipped")
        for hist in hists.values():
            add_verbatim_duplicate(rng, hist, rng.choice((("IN",), ("IN", "OUT", "INTRA"))))
    apply_layout_to_rows(hists, layout)
    return {"hists": hists, "layout": layout, "sheet_order": rng.sample(sorted(hists), len(hists)), "writer_seed": rng.randint(0, 10**9)}


class Parser:
    def __init__(self, scratch: str) -> None:
        os.chdir(scratch)
        from rpv.common import use_tree_under_test

        use_tree_under_test()
        import logging

        import rp2.configuration as configuration
        import rp2.ods_parser as ods_parser
        from rp2.plugin.country.us import US

        self.configuration = configuration
        self.ods_parser = ods_parser
        self.country = US()
        for handler in list(logging.getLogger("rp2").handlers):
            handler.setLevel(logging.CRITICAL)


def _one(ctx: Any, parser: Parser, case: Dict[str, Any], name: str) -> None:
    ws = Workspace(ctx.scratch, name)
    try:
        hists = copy.deepcopy(case["hists"])
        layout = case["layout"]
        ws.write(hists, layout=layout, rng=random.Random(case["writer_seed"]), sheet_order=case["sheet_order"])
        ctx.count("executions")
        ctx.count("valid_cases")
        stats = {"rows": 0, "fields": 0, "artificial": 0}
        try:
            config = parser.configuration.Configuration(ws.ini, parser.country)
            handle = parser.ods_parser.open_ods(config, ws.ods)
            violations: List[Tuple[str, Dict[str, Any]]] = []
            for asset, hist in hists.items():
                input_data = parser.ods_parser.parse_ods(config, asset, handle)
                violations += compare(input_data, hist, stats)
        except Exception as exc:  # pylint: disable=broad-except
            ctx.violation("parse.valid-input-rejected", {"error": f"{type(exc).__name__}: {str(exc)[:300]}"}, case)
            return
        ctx.count("rows_checked", stats["rows"])
        ctx.count("fields_checked", stats["fields"])
        ctx.count("artificial_fee_rows", stats["artificial"])
        for hist in hists.values():
            cells = [tuple(sorted((k, str(v)) for k, v in r.items() if k != "row")) for r in hist["rows"]]
            if len(set(cells)) < len(cells):
                ctx.count("sheets_with_a_row_repeated_verbatim")
        ctx.tag("tag_table_order", "-".join(layout["table_order"]))
        ctx.tag("tag_blank_rows", str(layout["blank_rows"]))
        identity = all(layout["columns"][t] == {f: i for i, f in enumerate(ods_io.FIELDS[t])} for t in ods_io.FIELDS)
        if not identity and all(_numeric_distinct(h, layout) for h in hists.values()):
            ctx.distinct("nontrivial", case)
            ctx.sample({"layout": {t: layout["columns"][t] for t in layout["columns"]}, "table_order": layout["table_order"], "junk_columns": layout["junk"], "rows": sum(len(h["rows"]) for h in hists.values())})
        for rule, detail in violations[:6]:
            ctx.violation(rule, detail, case)
    finally:
        ws.cleanup()


def _cli_pair(ctx: Any, case: Dict[str, Any], name: str) -> None:
    """Reports of a run on the random-layout files equal those of a run on the canonical-layout files."""
    from rpv.checks.cli_slices import _matrices

    ws_a = Workspace(ctx.scratch, name + "-a")
    ws_b = Workspace(ctx.scratch, name + "-b")
    try:
        ws_a.write(copy.deepcopy(case["hists"]), layout=case["layout"], rng=random.Random(case["writer_seed"]), sheet_order=case["sheet_order"])
        ws_b.write(copy.deepcopy(case["hists"]))
        method = case.get("method", "fifo")
        a = ws_a.run("us", ["-m", method], audit=False)
        b = ws_b.run("us", ["-m", method], audit=False)
        ctx.count("executions", 2)
        if a.exit != 0 or b.exit != 0:
            if a.exit != b.exit:
                ctx.violation("parse.cli-layout-changes-outcome", {"random_layout_exit": a.exit, "canonical_exit": b.exit, "stderr": (a.stderr if a.exit else b.stderr)[-300:]}, dict(case, cli=True))
            else:
                ctx.count("unobservable")
            return
        ctx.count("cli_pairs")
        for report_name in ("rp2_full_report", "tax_report_us", "open_positions"):
            ma, mb = _matrices(a.report(report_name)), _matrices(b.report(report_name))
            if ma != mb:
                sheet = next((s for s in ma if ma.get(s) != mb.get(s)), "?")
                rows_a, rows_b = ma.get(sheet, []), mb.get(sheet, [])
                diff = next((i for i, (x, y) in enumerate(zip(rows_a, rows_b)) if x != y), min(len(rows_a), len(rows_b)))
                ctx.violation("parse.cli-report-depends-on-layout", {"report": report_name, "sheet": sheet, "row": diff + 1, "random_layout": str(rows_a[diff : diff + 1])[:300], "canonical": str(rows_b[diff : diff + 1])[:300]}, dict(case, cli=True))
                break
    finally:
        ws_a.cleanup()
        ws_b.cleanup()


def run_shard(ctx: Any) -> None:
    parser = Parser(ctx.scratch)
    settings = SETTINGS[ctx.tier]
    share = ctx.share(settings["cases"])
    for i in range(share):
        if (ctx.budget_s - ctx.time_left()) > ctx.budget_s * 0.7:
            break
        index = ctx.shard + i * ctx.nshards
        _one(ctx, parser, make_case(ctx.rng("case", index)), f"c11-{index}")
    for i in range(ctx.share(settings["cli_cases"])):
        if ctx.time_left() < 4:
            break
        index = ctx.shard + i * ctx.nshards
        rng = ctx.rng("cli", index)
        case = make_case(rng)
        case["method"] = rng.choice(METHODS)
        _cli_pair(ctx, case, f"c11cli-{index}")


def replay(ctx: Any, case: Dict[str, Any]) -> None:
    if case.get("cli"):
        _cli_pair(ctx, case, "replay")
    else:
        _one(ctx, Parser(ctx.scratch), case, "replay")


def coverage(merged: Dict[str, Any], tier: str) -> Dict[str, Any]:
    c = merged["counters"]
    return {
        "evaluations": c.get("executions", 0),
        "distinct_nontrivial": len(merged["sets"].get("nontrivial", ())),
        "events_checked": {"rows": c.get("rows_checked", 0), "fields": c.get("fields_checked", 0), "artificial_fee_rows": c.get("artificial_fee_rows", 0), "cli_report_pairs": c.get("cli_pairs", 0)},
        "table_orders_seen": sorted(merged["sets"].get("tag_table_order", ())),
    }
