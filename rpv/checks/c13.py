"""C13 - the full report shows every transaction and fraction once, with the computed values.

Read-back monitor: every cell of rp2_full_report.ods written by a real CLI run is re-opened and compared with the input
rows and with the ComputedData the same tree computes in the checker process from the same files and options.
"""

from __future__ import annotations

from typing import Any, Dict

from rpv.checks.fullreport_common import corpus_case, make_case, run_case
from rpv.expected import Expected

PROPERTY_ID = "C13"
LEVEL = "exploration"
RULE = (
    "generated valid inputs of 1-3 assets (rows not time-sorted in the sheet, crypto fees on acquisitions, optional fiat "
    "columns) x country+language {us/en, generic/en, es/es, ie/en_IE, jp/en, jp/kl} x method via -m / [accounting_methods] "
    "schedule / default x window {none, to, from, from+to}; every In/Out/Intra-Flow, Gain / Loss Detail, Account Balances, "
    "Average Price, yearly summary, Summary-sheet and Legend cell is read back (values and formula payloads); one case in eight is one of the repository's own example inputs (-n). Non-trivial = "
    "report with >= 1 disposal spanning >= 2 lots; distinct = hash of the case"
)
ASSUMPTIONS = [
    "the file is read with ezodf, the library RP2 writes with; formula results are not evaluated, formula text and payloads are",
    "computed values are those of the same tree (their correctness is C01-C10's subject)",
    "running sums over same-instant rows are only bounded (their order inside an instant is not specified)",
    "rp2_jp is not given -f together with -t (KF3 of C16)",
]
SETTINGS: Dict[str, Dict[str, Any]] = {
    "quick": {"cases": 192, "budget_s": 60, "minimums": {"cells_checked": 30000, "nontrivial": 60, "detail_rows": 600}},
    "thorough": {"cases": 3600, "budget_s": 420, "minimums": {"cells_checked": 180000, "nontrivial": 300, "detail_rows": 4800}},
}


def _one(ctx: Any, expected: Expected, case: Dict[str, Any], name: str) -> None:
    outcome = run_case(ctx, expected, case, name, "content")
    ctx.count("valid_cases")
    if outcome is None:
        return
    stats, violations = outcome
    ctx.count("cells_checked", stats.cells)
    ctx.count("transaction_rows", stats.transaction_rows)
    ctx.count("detail_rows", stats.detail_rows)
    ctx.tag("tag_country_language", f"{case['country']}/{case['language']}")
    ctx.tag("tag_window", f"from={'y' if case.get('from') else 'n'},to={'y' if case.get('to') else 'n'}")
    ctx.tag("tag_method_source", "-m" if "-m" in case["args"] else ("config" if case["ini_methods"] else "default"))
    if stats.detail_rows >= 3:
        ctx.distinct("nontrivial", case)
        ctx.sample({"country": case["country"], "language": case["language"], "args": case["args"], "window": [case.get("from"), case.get("to")], "assets": sorted(case["hists"]), "cells_checked": stats.cells, "detail_rows": stats.detail_rows})
    for v in violations[:6]:
        ctx.violation(v["rule"], v["detail"], case)


def run_shard(ctx: Any) -> None:
    expected = Expected(ctx.scratch)
    settings = SETTINGS[ctx.tier]
    share = ctx.share(settings["cases"])
    for i in range(share):
        if ctx.expired():
            break
        index = ctx.shard + i * ctx.nshards
        case = corpus_case(ctx.rng("corpus", index), index // 8) if index % 8 == 5 else None
        if case is not None:
            ctx.count("shipped_example_input_cases")
        case = case or make_case(ctx.rng("case", index))
        if index % 16 == 9 and not case.get("corpus"):
            # one asset carries a transfer whose fee is worth less than 5e-14 fiat: no taxable event (KF4), and the report says so
            from rpv import families

            first = sorted(case["hists"])[0]
            case["hists"][first] = families.tiny_fee_transfer(ctx.rng("tiny-fee", index), first)
            case["from"] = case["to"] = None
            # the replaced asset has years of its own: a schedule drawn for the original histories may not cover them
            method = next(iter(case["schedule"].values()), "fifo") if case.get("schedule") else "fifo"
            if case["ini_methods"] or "-m" not in case["args"]:
                case["args"] = ["-m", method] + [a for a in case["args"] if a != "-m"]
                case["ini_methods"] = {}
                case["schedule"] = {"1970": method}
            ctx.count("reports_with_a_transfer_fee_worth_less_than_5e-14")
        _one(ctx, expected, case, f"c13-{index}")


def replay(ctx: Any, case: Dict[str, Any]) -> None:
    _one(ctx, Expected(ctx.scratch), case, "replay")


def coverage(merged: Dict[str, Any], tier: str) -> Dict[str, Any]:
    c = merged["counters"]
    return {
        "evaluations": c.get("executions", 0),
        "distinct_nontrivial": len(merged["sets"].get("nontrivial", ())),
        "events_checked": {"cells": c.get("cells_checked", 0), "transaction_rows": c.get("transaction_rows", 0), "detail_rows": c.get("detail_rows", 0)},
        "countries_languages_seen": sorted(merged["sets"].get("tag_country_language", ())),
        "window_shapes_seen": sorted(merged["sets"].get("tag_window", ())),
    }
