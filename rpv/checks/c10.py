"""C10 - date filters only hide rows; they never change the figures shown.

Relational monitor: ComputedData of real compute_tax runs with (from, to) vs the unfiltered run and the to-only run of
the same history.
"""

from __future__ import annotations

from datetime import date, timedelta, timezone
from typing import Any, Dict, List, Optional, Tuple

from rpv import families
from rpv.checks.inproc_util import candidate_days, clean_cut, get_ip, sched_from_json, sched_json
from rpv.gen import METHODS, Profile, history, own_years, parse_ts, schedule
from rpv.model import Model
from rpv.workload import deepen
from rpv.oracle.balance import is_valid

PROPERTY_ID = "C10"
LEVEL = "exploration"
RULE = (
    "valid generated histories x windows (from <= to) drawn on, one day before / after and between transaction dates, "
    "1 January, 1 July, empty windows, windows before the first / after the last transaction, from-only, to-only x methods / "
    "schedules. Relations: shown in/out/intra rows and fractions = exactly those whose own calendar date lies in the window; "
    "each shown fraction record identical to the unfiltered run's; k/n labels, balances, average price equal the to-only "
    "run's; k/n labels also recounted from the unfiltered trace (k = position among the event's / lot's fractions from the start "
    "of history, n = count up to the to-date); the to-only view of a valid history is the same with -n; yearly lines = the to-only run's lines with year >= from.year. Non-trivial = window that hides >= 1 fraction and "
    "shows >= 1 fraction that uses a lot acquired before the window; CLI slice: the same relations on the written reports, with -m and with a "
    "year -> method schedule in the config whose method changes before the window starts; distinct = hash of (history, schedule, window)"
)
ASSUMPTIONS = [
    "general workloads use to-dates only where own-date order and instant order agree across the cut; the inverted region is known finding KF1, exercised by its committed reproducer",
]
SETTINGS: Dict[str, Dict[str, Any]] = {
    "quick": {"cases": 1000, "cli_cases": 32, "budget_s": 50, "minimums": {"windows_checked": 3000, "nontrivial": 600, "bound_on_transaction_date": 800, "cli_pairs": 4, "cli_cases_with_from_date_after_a_method_change": 4}},
    "thorough": {"cases": 40000, "cli_cases": 200, "budget_s": 420, "minimums": {"windows_checked": 60000, "nontrivial": 18000, "bound_on_transaction_date": 24000, "cli_pairs": 60, "cli_cases_with_from_date_after_a_method_change": 15}},
}
PROFILES = [
    Profile(max_events=16, min_events=5, gap_style="medium"),
    Profile(max_events=16, min_events=5, gap_style="mixed", p_earn=0.5),
    Profile(max_events=18, min_events=6, gap_style="long", n_exchanges=2, n_holders=2, p_intra=0.3),
    Profile(max_events=16, min_events=5, gap_style="boundary", mixed_tz=True, tie_prob=0.3),
    Profile(max_events=16, min_events=5, gap_style="short", tie_prob=0.3),
    # buy and hold: purchases, gifts received and fee-less transfers only - an asset without a single taxable event
    Profile(max_events=12, min_events=4, gap_style="medium", p_in=0.6, p_out=0.0, p_intra=0.4, p_earn=0.0, p_intra_fee=0.0, p_in_fiat_fee=0.3, n_exchanges=3),
]


def _ids(entry_set: Any) -> List[int]:
    return [t.row for t in entry_set]


def _compare(ctx: Any, hist: Dict[str, Any], sched: Dict[int, str], unfiltered: Any, to_only: Any, filtered: Any, from_d: Optional[date], to_d: Optional[date], case: Dict[str, Any]) -> Tuple[int, int, int]:
    from rpv.drive_inproc import balances_of, frac, labels_of, trace_of, yearly_of

    model = Model(hist)
    lo = from_d or date(1970, 1, 1)
    hi = to_d or date(9999, 12, 31)
    problems: List[Tuple[str, Dict[str, Any]]] = []
    inverted = to_d is not None and not clean_cut(hist, to_d)

    def in_window(ts: Any) -> bool:
        return lo <= ts.date() <= hi

    # shown transactions
    for name, entry_set, table in (("in", filtered.in_transaction_set, "IN"), ("out", filtered.out_transaction_set, "OUT"), ("intra", filtered.intra_transaction_set, "INTRA")):
        got = sorted(_ids(entry_set))
        expected = sorted(r["row"] for r in hist["rows"] if r["t"] == table and in_window(parse_ts(r["ts"])))
        if got != expected:
            problems.append((f"filter.{name}-rows-shown", {"got": got, "expected": expected}))
    # shown fractions: exactly the unfiltered records whose event date is in the window, unchanged
    full = trace_of(unfiltered)
    expected_keys = [f.key() for f in full if in_window(f.event_ts)]
    shown = trace_of(filtered)
    got_keys = [f.key() for f in shown]
    if got_keys != expected_keys:
        problems.append(("filter.fractions-shown", {"got": [str(k) for k in got_keys[:4]], "n_got": len(got_keys), "expected": [str(k) for k in expected_keys[:4]], "n_expected": len(expected_keys)}))
    # taxable events shown
    got_events = sorted(_ids(filtered.taxable_event_set))
    expected_events = sorted(t.row for t in unfiltered.taxable_event_set if in_window(t.timestamp))
    if got_events != expected_events:
        problems.append(("filter.taxable-events-shown", {"got": got_events, "expected": expected_events}))
    # things that reflect all history up to the to-date
    if balances_of(filtered) != balances_of(to_only):
        problems.append(("filter.balances-depend-on-from-date", {}))
    if not inverted:
        # ... and they are the flows of every account up to the to-date, also for an asset that has no taxable event at all
        from rpv.oracle.balance import check_balances

        for v in check_balances(model, balances_of(filtered), to_d)[:2]:
            problems.append(("filter.balances-do-not-reflect-the-history-up-to-the-to-date", dict(v["detail"], clause=v["rule"])))
    if frac(filtered.price_per_unit) != frac(to_only.price_per_unit):
        problems.append(("filter.average-price-depends-on-from-date", {}))
    to_only_labels = {(e, l): rest for e, l, *rest in labels_of(to_only)}
    for e, l, *rest in labels_of(filtered):
        if to_only_labels.get((e, l)) != rest:
            problems.append(("filter.fraction-labels-depend-on-from-date", {"event": e, "lot": l, "got": rest, "to_only": to_only_labels.get((e, l))}))
            break
    # fraction labels k/n count all history up to the to-date: recounted here from the unfiltered trace
    if not inverted:
        n_event: Dict[int, int] = {}
        n_lot: Dict[int, int] = {}
        position: Dict[Tuple[int, Optional[int], int], Tuple[int, Optional[int]]] = {}
        seen_pairs: Dict[Tuple[int, Optional[int]], int] = {}
        for f in full:
            if f.event_ts.date() > hi:
                continue
            n_event[f.event] = n_event.get(f.event, 0) + 1
            if f.lot is not None:
                n_lot[f.lot] = n_lot.get(f.lot, 0) + 1
            occurrence = seen_pairs.get((f.event, f.lot), 0)
            seen_pairs[(f.event, f.lot)] = occurrence + 1
            position[(f.event, f.lot, occurrence)] = (n_event[f.event], n_lot.get(f.lot) if f.lot is not None else None)
        seen_pairs = {}
        for e, l, ke, ne, kl, nl in labels_of(filtered):
            occurrence = seen_pairs.get((e, l), 0)
            seen_pairs[(e, l)] = occurrence + 1
            expected_k = position.get((e, l, occurrence))
            if expected_k is None:
                continue
            expected_label = (expected_k[0], n_event.get(e), expected_k[1], n_lot.get(l) if l is not None else None)
            if (ke, ne, kl, nl) != expected_label:
                problems.append(("filter.fraction-labels-do-not-count-history-up-to-to-date", {"event": e, "lot": l, "got": [ke, ne, kl, nl], "expected": list(expected_label)}))
                break
    expected_yearly = [y for y in yearly_of(to_only) if from_d is None or y[0] >= from_d.year]
    if yearly_of(filtered) != expected_yearly:
        problems.append(("filter.yearly-lines", {"got": str(yearly_of(filtered))[:300], "expected": str(expected_yearly)[:300]}))
    # to-only vs unfiltered: yearly lines are the unfiltered fractions up to the to-date (checked by C06); here only that
    # the to-only view shows the right rows
    for rule, detail in problems:
        mechanism = ""
        if inverted:
            mechanism = "KF1" if _is_takewhile_view(hist, unfiltered, filtered, lo, hi) else ""
        ctx.violation(rule, dict(detail, window=[str(from_d), str(to_d)], inverted_window=inverted), case, mechanism=mechanism)
    hidden = len(full) - len(expected_keys)
    pre_window_lots = sum(1 for f in shown if f.lot is not None and model.lots[f.lot].ts.date() < lo)
    return len(shown), hidden, pre_window_lots


def _is_takewhile_view(hist: Dict[str, Any], unfiltered: Any, filtered: Any, lo: date, hi: date) -> bool:
    """KF1 classifier: what is shown equals `skip < from, stop at the first entry dated after to` over the instant-sorted
    sets (and therefore differs from the specified view only by rows after that first entry)."""
    from rpv.drive_inproc import trace_of

    def takewhile(items: List[Any], ts_of: Any, key_of: Any) -> List[Any]:
        out = []
        for item in items:
            if ts_of(item).date() > hi:
                break
            if ts_of(item).date() >= lo:
                out.append(key_of(item))
        return out

    full = trace_of(unfiltered)
    if [f.key() for f in trace_of(filtered)] != takewhile(full, lambda f: f.event_ts, lambda f: f.key()):
        return False
    for table, entry_set in (("IN", filtered.in_transaction_set), ("OUT", filtered.out_transaction_set), ("INTRA", filtered.intra_transaction_set)):
        rows = sorted((r for r in hist["rows"] if r["t"] == table), key=lambda r: (parse_ts(r["ts"]).astimezone(timezone.utc), 0))
        expected = takewhile(rows, lambda r: parse_ts(r["ts"]), lambda r: r["row"])
        if sorted(_ids(entry_set)) != sorted(expected):
            return False
    return True


def _observe(ctx: Any, ip: Any, hist: Dict[str, Any], sched: Dict[int, str], windows: List[List[Optional[str]]], probe: bool = False) -> None:
    base = ip.run(hist, sched)
    ctx.count("executions")
    ctx.count("valid_cases")
    if not base.ok:
        ctx.count("unobservable")
        ctx.tag("tag_unobservable", base.error[:80])
        return
    dates = {parse_ts(r["ts"]).date() for r in hist["rows"]}
    for from_s, to_s in windows:
        from_d = date.fromisoformat(from_s) if from_s else None
        to_d = date.fromisoformat(to_s) if to_s else None
        case = {"hist": hist, "schedule": sched_json(sched), "windows": [[from_s, to_s]]}
        to_only = ip.run(hist, sched, to_date=to_d) if to_d else base
        filtered = ip.run(hist, sched, from_date=from_d, to_date=to_d)
        if to_d and to_only.ok:
            # the history is valid: allowing negative balances changes nothing of what a window shows
            with_n = ip.run(hist, sched, to_date=to_d, allow_negative=True)
            ctx.count("executions")
            ctx.count("windows_also_run_with_negative_balances_allowed")
            from rpv.drive_inproc import balances_of as _balances, trace_of as _trace

            if not with_n.ok:
                ctx.violation("filter.valid-history-fails-with-n", {"error": with_n.error[:200], "window": [None, to_s]}, case)
            elif _balances(with_n.computed) != _balances(to_only.computed) or [f.key() for f in _trace(with_n.computed)] != [f.key() for f in _trace(to_only.computed)]:
                ctx.violation("filter.to-date-view-depends-on-n-for-a-valid-history", {"window": [None, to_s], "balances_with_n": str(_balances(with_n.computed))[:300], "balances_without": str(_balances(to_only.computed))[:300]}, case)
        ctx.count("executions", 2)
        ctx.count("valid_cases", 2)
        if not to_only.ok or not filtered.ok:
            ctx.count("unobservable")
            ctx.tag("tag_unobservable", (to_only.error or filtered.error)[:80])
            continue
        try:
            shown, hidden, pre_window = _compare(ctx, hist, sched, base.computed, to_only.computed, filtered.computed, from_d, to_d, case)
        except Exception as exc:  # pylint: disable=broad-except
            # the filtered ComputedData exists but cannot be read back (RP2's own accessors raise): nothing can be shown for
            # the window although the unfiltered run is fine
            import traceback

            ctx.violation("filter.filtered-result-unreadable", {"error": f"{type(exc).__name__}: {str(exc)[:200]}", "where": traceback.format_exc().strip().splitlines()[-3][:160], "window": [from_s, to_s]}, case)
            continue
        ctx.count("windows_checked")
        ctx.count("fractions_shown_compared", shown)
        if (from_d in dates) or (to_d in dates):
            ctx.count("bound_on_transaction_date")
        if shown == 0:
            ctx.count("empty_windows")
        ctx.tag("tag_window", f"from={'y' if from_d else 'n'},to={'y' if to_d else 'n'}")
        if hidden and pre_window:
            ctx.distinct("nontrivial", case)
            ctx.sample({"window": [from_s, to_s], "n_rows": len(hist["rows"]), "fractions_shown": shown, "fractions_hidden": hidden, "shown_fractions_using_pre_window_lots": pre_window})


def kf1_reproducer() -> Tuple[Dict[str, Any], List[List[Optional[str]]]]:
    """Two sales one hour apart: the earlier instant is written at UTC+14 (own date 2 March), the later at UTC-12 (own
    date 1 March). With to-date 1 March the later sale is inside the window but is cut with the earlier one."""
    b = families.HB()
    b.acquire(families.T(2020, 1, 1), 10, 100)
    b.dispose(families.T(2020, 3, 1, 12, 0, 0), 1, 200, offset=840)  # 2020-03-02 02:00 +14:00
    b.dispose(families.T(2020, 3, 1, 13, 0, 0), 1, 210, offset=-720)  # 2020-03-01 01:00 -12:00
    return b.done(), [[None, "2020-03-01"]]


def _windows(rng: Any, hist: Dict[str, Any]) -> List[List[Optional[str]]]:
    days = candidate_days(rng, hist, 10)
    clean = [d for d in days if clean_cut(hist, d)]
    result: List[List[Optional[str]]] = []
    for _ in range(4):
        if len(clean) < 1:
            break
        a = rng.choice(days)
        b = rng.choice(clean)
        if a > b:
            if clean_cut(hist, a):
                a, b = b, a
            else:
                a = b
        result.append([a.isoformat(), b.isoformat()])
    if days:
        result.append([rng.choice(days).isoformat(), None])
    if clean:
        result.append([None, rng.choice(clean).isoformat()])
    return result


def run_shard(ctx: Any) -> None:
    ip = get_ip(ctx)
    settings = SETTINGS[ctx.tier]
    share = ctx.share(settings["cases"])
    index = ctx.shard
    done = 0
    while done < share and (ctx.budget_s - ctx.time_left()) < ctx.budget_s * 0.75:
        rng = ctx.rng("case", index)
        hist = history(rng, deepen(ctx, index, PROFILES[index % len(PROFILES)]))
        if is_valid(Model(hist)):
            years = own_years(hist)
            sched = {1970: rng.choice(METHODS)} if rng.random() < 0.75 else schedule(rng, years[0], years[-1])
            _observe(ctx, ip, hist, sched, _windows(rng, hist))
        else:
            ctx.count("generated_invalid")
        index += ctx.nshards
        done += 1
    ctx.count("inputs", done)
    if ctx.shard == 0:
        before = len(ctx.violations)
        hist, windows = kf1_reproducer()
        _observe(ctx, ip, hist, {1970: "fifo"}, windows)
        probe = ctx.violations[before:]
        reproduces = bool(probe) and all(v.get("mechanism") == "KF1" for v in probe)
        # KF1-classified records of the probe are reported through known_finding; anything else stays a violation
        ctx.violations[:] = ctx.violations[:before] + [v for v in probe if v.get("mechanism") != "KF1"]
        ctx.known_finding("KF1", reproduces, "to-date cut stops at the first entry dated after the to-date")
    try:
        from rpv.checks import cli_slices
    except ImportError:
        return
    cli_slices.c10(ctx, settings["cli_cases"])


def replay(ctx: Any, case: Dict[str, Any]) -> None:
    if case.get("cli"):
        from rpv.checks import cli_slices

        cli_slices.c10_replay(ctx, case)
        return
    _observe(ctx, get_ip(ctx), case["hist"], sched_from_json(case["schedule"]), case["windows"])


def coverage(merged: Dict[str, Any], tier: str) -> Dict[str, Any]:
    c = merged["counters"]
    return {
        "evaluations": c.get("executions", 0),
        "distinct_nontrivial": len(merged["sets"].get("nontrivial", ())),
        "events_checked": {
            "windows": c.get("windows_checked", 0),
            "shown_fraction_records_compared": c.get("fractions_shown_compared", 0),
            "windows_with_a_bound_on_a_transaction_date": c.get("bound_on_transaction_date", 0),
            "empty_windows": c.get("empty_windows", 0),
            "cli_pairs": c.get("cli_pairs", 0),
        },
        "window_shapes_seen": sorted(merged["sets"].get("tag_window", ())),
    }
