"""C05 - long-term vs short-term classification follows the holding period.

Boundary workload around the threshold of every country plugin; the flag of every fraction of real compute_tax runs is
compared with floor((t_event - t_lot) / 1 day) >= period on UTC instants.
"""

from __future__ import annotations

import random
from datetime import datetime, timedelta, timezone
from typing import Any, Dict, List, Optional, Tuple

from rpv import families
from rpv.checks.inproc_util import get_ip
from rpv.gen import EARN_TYPES, METHODS, OFFSETS, OUT_TYPES
from rpv.model import Model
from rpv.oracle.trace import check_long_short

PROPERTY_ID = "C05"
LEVEL = "exploration"
RULE = (
    "boundary generator: lot(s) at T, disposal at T + period days + delta with delta in {-1d,-1s,-1us,0,+1us,+1s,+1d,+-13h,...}, "
    "T over leap / non-leap years, year ends and holdings that straddle 2^30 s / 2^31 s after the epoch (2004, 2038) with sub-second parts, both timestamps written in independently chosen UTC offsets, disposals "
    "spanning lots on either side of the threshold, income rows; countries us, es (365), jp, ie (never), generic with "
    "LONG_TERM_CAPITAL_GAINS in {0,1,30,180,365,366,730}. Non-trivial = a run whose fractions include a lot within one day "
    "of the threshold; distinct = hash of (history, country, period). "
    "The repository's own example inputs (input/*.ods read independently of RP2's parser, every method and the config's schedule, -n) are part of the workload"
)
ASSUMPTIONS = ["whole days elapsed are computed on instants (UTC), whatever the written time zones", "income fractions are always short-term"]
SETTINGS: Dict[str, Dict[str, Any]] = {
    "quick": {"cases": 5000, "cli_cases": 40, "budget_s": 45, "minimums": {"corpus_runs": 100, "fractions": 7000, "nontrivial": 2000, "near_threshold_both_sides": 1500, "cli_runs": 5, "runs_with_the_to_date_on_the_disposal_day": 400}},
    "thorough": {"cases": 200000, "cli_cases": 150, "budget_s": 300, "minimums": {"corpus_runs": 100, "fractions": 240000, "nontrivial": 48000, "near_threshold_both_sides": 30000, "cli_runs": 60, "runs_with_the_to_date_on_the_disposal_day": 9000}},
}

COUNTRIES: List[Tuple[str, Optional[int], Optional[int]]] = [
    # (country, generic env value, period used by the oracle; None = never long-term)
    ("us", None, 365),
    ("es", None, 365),
    ("jp", None, None),
    ("ie", None, None),
] + [("generic", n, n) for n in (0, 1, 30, 180, 365, 366, 730)]

DELTAS = [
    timedelta(days=-1),
    timedelta(seconds=-1),
    timedelta(microseconds=-1),
    timedelta(0),
    timedelta(microseconds=1),
    timedelta(seconds=1),
    timedelta(days=1),
    timedelta(hours=13),
    timedelta(hours=-13),
    timedelta(hours=-23, minutes=-59),
    timedelta(hours=23, minutes=59, seconds=59, microseconds=999999),
]


def boundary_history(rng: random.Random, period_days: int) -> Dict[str, Any]:
    b = families.HB()
    base_choices = [
        datetime(2019, 2, 28, 12, 0, 0, tzinfo=timezone.utc),
        datetime(2020, 2, 28, 23, 59, 59, tzinfo=timezone.utc),
        datetime(2020, 2, 29, 0, 0, 0, tzinfo=timezone.utc),
        datetime(2019, 12, 31, 23, 59, 59, 999999, tzinfo=timezone.utc),
        datetime(2020, 1, 1, 0, 0, 0, tzinfo=timezone.utc),
        datetime(2016, 3, 1, 5, 30, tzinfo=timezone.utc),
        datetime(rng.randint(2015, 2022), rng.randint(1, 12), rng.randint(1, 28), rng.randint(0, 23), rng.randint(0, 59), rng.randint(0, 59), rng.choice((0, rng.randint(0, 999999))), tzinfo=timezone.utc),
    ]
    # holdings that straddle 2^31 s and 2^30 s after the epoch (19 Jan 2038, 10 Jan 2004), with a sub-second part: where the binary
    # exponent of a POSIX float changes, and with it the size of its last bit
    for power in (31, 31, 30):
        base_choices.append(datetime.fromtimestamp(2**power, tz=timezone.utc) - timedelta(days=rng.randint(0, max(period_days, 1)), seconds=rng.randint(0, 86399), microseconds=rng.randint(1, 999999)))
    t_lot = rng.choice(base_choices)
    t_event = t_lot + timedelta(days=period_days) + rng.choice(DELTAS)
    n_lots = rng.randint(1, 3)
    # lots on either side of the threshold as seen from the disposal
    lot_times = [t_lot]
    for _ in range(n_lots - 1):
        lot_times.append(t_lot + rng.choice(DELTAS) + rng.choice((timedelta(0), timedelta(days=-2), timedelta(days=2))))
    amounts = [rng.choice((1, 2, 5)) for _ in lot_times]
    for instant, amount in zip(lot_times, amounts):
        if instant > t_event:
            instant = t_event
        b.acquire(instant, amount, rng.choice((100, 200, 300)), ttype=rng.choice(("BUY", "BUY", "GIFT") + EARN_TYPES[:2]), offset=rng.choice(OFFSETS))
    if rng.random() < 0.3:
        b.acquire(t_event, 1, 150, ttype=rng.choice(EARN_TYPES), offset=rng.choice(OFFSETS))
    total = sum(amounts)
    b.dispose(t_event, rng.choice((1, total, max(1, total - 1))), 250, ttype=rng.choice(OUT_TYPES), offset=rng.choice(OFFSETS))
    return b.done(rng, shuffle=True)


def _observe(ctx: Any, ip: Any, hist: Dict[str, Any], country: str, env_value: Optional[int], period: Optional[int], method: str, to_s: Optional[str] = None) -> None:
    from datetime import date

    from rpv.drive_inproc import trace_of

    model = Model(hist)
    res = ip.run(hist, {1970: method}, country=country, ltcg=env_value, to_date=date.fromisoformat(to_s) if to_s else None)
    ctx.count("executions")
    ctx.count("valid_cases")
    if to_s:
        ctx.count("runs_with_the_to_date_on_the_disposal_day")
    case = {"hist": hist, "country": country, "ltcg": env_value, "period": period, "method": method, "to": to_s}
    if not res.ok:
        ctx.count("unobservable")
        ctx.tag("tag_unobservable", res.error[:80])
        return
    trace = trace_of(res.computed)
    violations = check_long_short(model, trace, period)
    ctx.count("fractions", len(trace))
    ctx.tag("tag_country", f"{country}:{env_value}" if country == "generic" else country)
    near = False
    for f in trace:
        if f.lot is None:
            ctx.count("income_fractions")
            continue
        held = model.events[f.event].utc - model.lots[f.lot].utc
        reference = period if period is not None else 365
        if abs(held - timedelta(days=reference)) <= timedelta(days=1):
            near = True
            ctx.count("near_threshold_long" if f.long else "near_threshold_short")
            if held >= timedelta(days=reference):
                ctx.count("near_threshold_at_or_above")
            else:
                ctx.count("near_threshold_below")
    if near:
        ctx.distinct("nontrivial", case)
        ctx.sample({"country": country, "period": period, "rows": [{k: r[k] for k in ("t", "ts", "type")} for r in hist["rows"]], "flags": [(f.event, f.lot, f.long) for f in trace]})
    # the split of the yearly summary lines follows the same flags: a (year, type, long/short) line exists exactly when some
    # fraction carries that key
    from rpv.drive_inproc import yearly_of

    keys_of_fractions = {(model.events[f.event].ts.year, f.event_type, f.long) for f in trace if f.event in model.events}
    keys_of_lines = {(y[0], y[2], y[3]) for y in yearly_of(res.computed)}
    ctx.count("yearly_line_splits_checked", len(keys_of_lines))
    if keys_of_fractions != keys_of_lines:
        violations.append({"rule": "longshort.yearly-line-split-differs-from-the-fraction-flags", "detail": {"only_in_lines": sorted(map(str, keys_of_lines - keys_of_fractions))[:4], "only_in_fractions": sorted(map(str, keys_of_fractions - keys_of_lines))[:4]}})
    for v in violations:
        ctx.violation(v["rule"], v["detail"], case)


def run_shard(ctx: Any) -> None:
    from rpv.checks import corpus_slice

    corpus_slice.run(ctx, PROPERTY_ID)  # the repository's own example inputs, every method and the config's schedule
    ip = get_ip(ctx)
    settings = SETTINGS[ctx.tier]
    share = ctx.share(settings["cases"])
    index = ctx.shard
    done = 0
    while done < share and (ctx.budget_s - ctx.time_left()) < ctx.budget_s * 0.75:
        rng = ctx.rng("case", index)
        country, env_value, period = COUNTRIES[index % len(COUNTRIES)]
        reference = period if period is not None else 365
        hist = boundary_history(rng, reference)
        method = rng.choice(METHODS) if country in ("us", "generic") else "fifo"
        _observe(ctx, ip, hist, country, env_value, period, method)
        if index % 3 == 0:
            # the same history cut on the very day of the boundary disposal: classification does not depend on the window
            from rpv.checks.inproc_util import clean_cut
            from rpv.gen import parse_ts

            last_day = max(parse_ts(r["ts"]).date() for r in hist["rows"] if r["t"] == "OUT")
            if clean_cut(hist, last_day):
                _observe(ctx, ip, hist, country, env_value, period, method, to_s=last_day.isoformat())
        index += ctx.nshards
        done += 1
    ctx.count("inputs", done)
    ctx.count("near_threshold_both_sides", min(ctx.counters.get("near_threshold_at_or_above", 0), ctx.counters.get("near_threshold_below", 0)))
    try:
        from rpv.checks import cli_slices
    except ImportError:
        return
    cli_slices.c05(ctx, settings["cli_cases"])


def replay(ctx: Any, case: Dict[str, Any]) -> None:
    if case.get("corpus"):
        from rpv.checks import corpus_slice

        corpus_slice.replay(ctx, PROPERTY_ID, case)
        return
    if case.get("cli"):
        from rpv.checks import cli_slices

        cli_slices.c05_replay(ctx, case)
        return
    _observe(ctx, get_ip(ctx), case["hist"], case["country"], case["ltcg"], case["period"], case["method"], to_s=case.get("to"))


def coverage(merged: Dict[str, Any], tier: str) -> Dict[str, Any]:
    c = merged["counters"]
    return {
        "evaluations": c.get("executions", 0),
        "distinct_nontrivial": len(merged["sets"].get("nontrivial", ())),
        "events_checked": {
            "fractions": c.get("fractions", 0),
            "income_fractions": c.get("income_fractions", 0),
            "within_one_day_of_threshold_reported_long": c.get("near_threshold_long", 0),
            "within_one_day_of_threshold_reported_short": c.get("near_threshold_short", 0),
            "cli_runs": c.get("cli_runs", 0),
        },
        "countries_seen": sorted(merged["sets"].get("tag_country", ())),
    }
