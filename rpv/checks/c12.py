"""C12 - malformed or contradictory input is rejected, never silently processed.

Fault enumeration: every documented fault class is injected at the applicable sheet / table / row / field / section
positions of valid inputs and the real CLI is observed at the process boundary: exit status, error message, listing and
hashes of the output directory (empty, or pre-filled with the reports of an earlier good run).
"""

from __future__ import annotations

import copy
import hashlib
import json
import os
import random
import shutil
from typing import Any, Callable, Dict, List, Optional, Tuple

from rpv import ods_io
from rpv.cli_core import cli_histories, cli_profile
from rpv.drive_cli import Workspace, run_cli
from rpv.gen import EARN_TYPES
from rpv.model import Model
from rpv.oracle.balance import is_valid

PROPERTY_ID = "C12"
LEVEL = "fault_enumeration"
RULE = (
    "valid two-asset base inputs (all three tables filled, default or random column layout) are first run unfaulted (must "
    "succeed), then every single fault of the documented classes is injected - row faults: unknown asset / exchange / "
    "holder, row asset != sheet, timestamp without zone, type not allowed in its table, zero and negative amounts, zero spot "
    "price where required, received > sent, crypto and fiat fee both set, non-numeric numbers; structure faults: missing "
    "TABLE END, nested table, repeated table, data outside a table, spurious TABLE END, missing IN table, empty IN table; "
    "config faults: missing section / field, duplicate / unknown section, non-integer / negative / duplicate column, unknown "
    "column name, deprecated JSON; option faults: -m with [accounting_methods], method not accepted by the country, unknown / "
    "unsupported language, from > to, deprecated -l, unknown method in the config schedule, generic country without / with "
    "invalid environment - at first, last and one random data row per table (quick) or every data row (thorough). Each "
    "(class, position) is one evaluation; non-trivial = faulted run whose unfaulted twin succeeded; distinct = (base, class, position)"
)
ASSUMPTIONS = [
    "faults go to data rows only; every table keeps its header (a fault that turns a row into something the header detection swallows is not a documented class)",
    "negative or zero amounts of STAKING acquisitions are not faults (documented exception)",
    "zero spot price is only a fault where one is required (acquisitions, non-FEE out-transactions, transfers with a fee)",
]
SETTINGS: Dict[str, Dict[str, Any]] = {
    "quick": {"bases": 2, "positions": "sampled", "budget_s": 90, "minimums": {"faulted_runs": 250, "nontrivial": 250}},
    "thorough": {"bases": 12, "positions": "all", "budget_s": 600, "minimums": {"faulted_runs": 900, "nontrivial": 900}},
}
CLASSES = [
    "unknown-asset", "row-asset-differs-from-sheet", "unknown-exchange", "unknown-holder", "timestamp-without-zone", "type-not-allowed-in-table",
    "zero-amount", "negative-amount", "zero-spot-price", "received-more-than-sent", "crypto-and-fiat-fee", "non-numeric-number",
    "missing-table-end", "nested-table", "repeated-table", "data-outside-table", "spurious-table-end", "missing-in-table", "empty-in-table",
    "config-missing-section", "config-missing-field", "config-duplicate-section", "config-unknown-section", "config-non-integer-column",
    "config-negative-column", "config-duplicate-column", "config-unknown-column", "config-deprecated-json",
    "option-method-and-config-methods", "option-method-not-accepted", "option-unknown-language", "option-unsupported-language", "option-from-after-to",
    "option-deprecated-plugin", "config-unknown-method-in-schedule", "generic-env-missing", "generic-env-invalid",
]  # fmt: skip
for _tier in SETTINGS.values():
    _tier["required_tags"] = {"tag_class": CLASSES}


# ---------------------------------------------------------------------------------------------------------
# fault catalogue
# ---------------------------------------------------------------------------------------------------------


def row_faults(asset: str, other_asset: str, r: Dict[str, Any]) -> List[Dict[str, Any]]:
    table = r["t"]
    out: List[Dict[str, Any]] = []

    def add(cls: str, **edit: Any) -> None:
        out.append({"kind": "row", "class": cls, "asset": asset, "uid": r["uid"], "table": table, "edit": edit})

    add("unknown-asset", asset_override="ZZZ")
    add("row-asset-differs-from-sheet", asset_override=other_asset)
    add("timestamp-without-zone", ts=r["ts"].rsplit(" ", 1)[0])
    if table == "IN":
        add("unknown-exchange", ex="NoSuchExchange")
        add("unknown-holder", ho="Nobody")
        # a configured name plus white space is not that name (a tree that trims names consistently may accept the row - on the
        # configured account; booking it on an account of its own is the fault going through)
        out.append({"kind": "row", "class": "unknown-exchange", "asset": asset, "uid": r["uid"], "table": table, "edit": {"ex": r["ex"] + " "}, "padded_name": True})
        out.append({"kind": "row", "class": "unknown-holder", "asset": asset, "uid": r["uid"], "table": table, "edit": {"ho": " " + r["ho"]}, "padded_name": True})
        add("type-not-allowed-in-table", type="SELL")
        if r["type"] != "STAKING":
            add("zero-amount", cin="0")
            add("negative-amount", cin="-1")
        add("zero-spot-price", spot="0")
        add("crypto-and-fiat-fee", cfee="0.001", ffee="1")
        # both cells filled, one of them with an explicit 0: still two fees given (the pinned tree tests "is not None")
        add("crypto-and-fiat-fee", cfee="0.001", ffee="0")
        add("crypto-and-fiat-fee", cfee="0", ffee="1")
        add("non-numeric-number", cin={"raw": "12abc"})
        add("non-numeric-number", spot={"raw": "n/a"})
    elif table == "OUT":
        add("unknown-exchange", ex="NoSuchExchange")
        add("unknown-holder", ho="Nobody")
        add("type-not-allowed-in-table", type="BUY")
        if r["type"] == "FEE":
            add("zero-amount", cfee="0")
            add("negative-amount", cfee="-1")
        else:
            add("zero-amount", cout="0")
            add("negative-amount", cout="-1")
            add("negative-amount", cfee="-0.5")
            add("zero-spot-price", spot="0")
        add("non-numeric-number", cout={"raw": "1,5x"})
    else:
        add("unknown-exchange", fex="NoSuchExchange")
        add("unknown-exchange", tex="NoSuchExchange")
        add("unknown-holder", fho="Nobody")
        add("unknown-holder", tho="Nobody")
        add("zero-amount", sent="0", recv="0")
        add("negative-amount", sent="-1", recv="-1")
        add("negative-amount", recv="-0.1")
        add("received-more-than-sent", recv=str(float(r["sent"]) + 1))
        if r["sent"] != r["recv"]:
            add("zero-spot-price", spot="0")
            add("zero-spot-price", spot=None)
        add("non-numeric-number", sent={"raw": "abc"})
    return out


def structure_faults(asset: str, hist: Dict[str, Any]) -> List[Dict[str, Any]]:
    out = []
    for table in ("IN", "OUT", "INTRA"):
        if any(r["t"] == table for r in hist["rows"]):
            out.append({"kind": "grid", "class": "missing-table-end", "asset": asset, "table": table})
            out.append({"kind": "grid", "class": "nested-table", "asset": asset, "table": table})
            out.append({"kind": "grid", "class": "repeated-table", "asset": asset, "table": table})
            # the repeat (or the nested keyword) spelled in another letter case: keywords are matched case-insensitively, so it is
            # the same table again (a tree that matched them exactly would see data outside a table - a fault either way)
            out.append({"kind": "grid", "class": "repeated-table", "asset": asset, "table": table, "spelling": "lower"})
            out.append({"kind": "grid", "class": "repeated-table", "asset": asset, "table": table, "spelling": "title"})
            out.append({"kind": "grid", "class": "nested-table", "asset": asset, "table": table, "spelling": "lower"})
            out.append({"kind": "grid", "class": "data-outside-table", "asset": asset, "table": table})
    out.append({"kind": "grid", "class": "spurious-table-end", "asset": asset, "table": "start"})
    out.append({"kind": "grid", "class": "spurious-table-end", "asset": asset, "table": "end"})
    out.append({"kind": "grid", "class": "missing-in-table", "asset": asset, "table": "IN"})
    out.append({"kind": "grid", "class": "empty-in-table", "asset": asset, "table": "IN"})
    return out


def config_faults() -> List[Dict[str, Any]]:
    out = []
    for section in ("general", "in_header", "out_header", "intra_header"):
        out.append({"kind": "ini", "class": "config-missing-section", "section": section})
    for field in ("assets", "exchanges", "holders"):
        out.append({"kind": "ini", "class": "config-missing-field", "field": field})
    for section in ("in_header", "general"):
        out.append({"kind": "ini", "class": "config-duplicate-section", "section": section})
    out.append({"kind": "ini", "class": "config-unknown-section", "section": "bogus_section"})
    for section in ("in_header", "out_header", "intra_header"):
        out.append({"kind": "ini", "class": "config-non-integer-column", "section": section})
        out.append({"kind": "ini", "class": "config-negative-column", "section": section})
        out.append({"kind": "ini", "class": "config-duplicate-column", "section": section})
        out.append({"kind": "ini", "class": "config-unknown-column", "section": section})
    out.append({"kind": "ini", "class": "config-deprecated-json"})
    out.append({"kind": "ini", "class": "config-unknown-method-in-schedule"})
    return out


def option_faults() -> List[Dict[str, Any]]:
    return [
        {"kind": "args", "class": "option-method-and-config-methods", "country": "us", "args": ["-m", "fifo"], "ini_methods": {"1970": "fifo", "2021": "hifo"}},
        {"kind": "args", "class": "option-method-not-accepted", "country": "es", "args": ["-m", "hifo"]},
        {"kind": "args", "class": "option-method-not-accepted", "country": "jp", "args": ["-m", "lifo", "-g", "en"]},
        {"kind": "args", "class": "option-method-not-accepted", "country": "us", "args": ["-m", "bogus"]},
        {"kind": "args", "class": "option-unknown-language", "country": "us", "args": ["-g", "zz"]},
        {"kind": "args", "class": "option-unsupported-language", "country": "us", "args": ["-g", "ja"]},
        {"kind": "args", "class": "option-unsupported-language", "country": "es", "args": ["-g", "en"]},
        {"kind": "args", "class": "option-from-after-to", "country": "us", "args": ["-f", "2021-01-02", "-t", "2021-01-01"]},
        {"kind": "args", "class": "option-deprecated-plugin", "country": "us", "args": ["-l", "rp2_full_report"]},
        {"kind": "args", "class": "generic-env-missing", "country": "generic", "args": [], "env": {"CURRENCY_CODE": None}},
        {"kind": "args", "class": "generic-env-missing", "country": "generic", "args": [], "env": {"LONG_TERM_CAPITAL_GAINS": None}},
        {"kind": "args", "class": "generic-env-invalid", "country": "generic", "args": [], "env": {"LONG_TERM_CAPITAL_GAINS": "abc"}},
        {"kind": "args", "class": "generic-env-invalid", "country": "generic", "args": [], "env": {"LONG_TERM_CAPITAL_GAINS": "-5"}},
        {"kind": "args", "class": "generic-env-invalid", "country": "generic", "args": [], "env": {"CURRENCY_CODE": "zzz"}},
    ]


def enumerate_faults(hists: Dict[str, Dict[str, Any]], positions: str, rng: random.Random) -> List[Dict[str, Any]]:
    faults: List[Dict[str, Any]] = []
    assets = sorted(hists)
    for asset in assets:
        other = next(a for a in assets if a != asset)
        hist = hists[asset]
        for table in ("IN", "OUT", "INTRA"):
            rows = sorted((r for r in hist["rows"] if r["t"] == table), key=lambda r: r["row"])
            if not rows:
                continue
            if positions == "all":
                chosen = rows
            else:
                chosen = {id(rows[0]): rows[0], id(rows[-1]): rows[-1]}
                extra = rng.choice(rows)
                chosen[id(extra)] = extra
                chosen = list(chosen.values())
            for r in chosen:
                faults.extend(row_faults(asset, other, r))
        faults.extend(structure_faults(asset, hist))
    faults.extend(config_faults())
    faults.extend(option_faults())
    return faults


# ---------------------------------------------------------------------------------------------------------
# fault application
# ---------------------------------------------------------------------------------------------------------


def _table_bounds(grid: List[List[Any]], table: str) -> Optional[Tuple[int, int]]:
    start = next((i for i, row in enumerate(grid) if row and row[0] == table), None)
    if start is None:
        return None
    end = next(i for i in range(start, len(grid)) if grid[i] and grid[i][0] == "TABLE END")
    return start, end


def grid_edit_for(fault: Dict[str, Any]) -> Callable[[List[List[Any]]], None]:
    cls, table = fault["class"], fault["table"]
    spell = {"lower": str.lower, "title": str.title}.get(fault.get("spelling", ""), str)

    def edit(grid: List[List[Any]]) -> None:
        if cls == "spurious-table-end":
            if table == "start":
                grid.insert(0, ["TABLE END"])
            else:
                grid.append(["TABLE END"])
            return
        bounds = _table_bounds(grid, table)
        if bounds is None:
            return
        start, end = bounds
        if cls == "missing-table-end":
            del grid[end]
        elif cls == "nested-table":
            grid.insert(start + 3 if end - start > 3 else end, [spell("OUT" if table != "OUT" else "IN")])
        elif cls == "repeated-table":
            grid.extend([[spell(table)], list(grid[start + 1]), list(grid[start + 2]), ["TABLE END"]])
        elif cls == "data-outside-table":
            grid.insert(end + 1, list(grid[start + 2]))
        elif cls == "missing-in-table":
            del grid[start : end + 1]
        elif cls == "empty-in-table":
            del grid[start + 2 : end]

    return edit


def mutate_ini(text: str, fault: Dict[str, Any]) -> str:
    cls = fault["class"]
    lines = text.splitlines()

    def section_range(name: str) -> Tuple[int, int]:
        start = lines.index(f"[{name}]")
        end = next((i for i in range(start + 1, len(lines)) if lines[i].startswith("[")), len(lines))
        return start, end

    if cls == "config-missing-section":
        start, end = section_range(fault["section"])
        del lines[start:end]
    elif cls == "config-missing-field":
        lines = [l for l in lines if not l.startswith(f"{fault['field']} =")]
    elif cls == "config-duplicate-section":
        start, end = section_range(fault["section"])
        lines += [""] + lines[start:end]
    elif cls == "config-unknown-section":
        lines += ["", f"[{fault['section']}]", "x = 1"]
    elif cls in ("config-non-integer-column", "config-negative-column", "config-duplicate-column", "config-unknown-column"):
        start, end = section_range(fault["section"])
        body = [i for i in range(start + 1, end) if "=" in lines[i]]
        if cls == "config-non-integer-column":
            key = lines[body[1]].split("=")[0].strip()
            lines[body[1]] = f"{key} = abc"
        elif cls == "config-negative-column":
            key = lines[body[1]].split("=")[0].strip()
            lines[body[1]] = f"{key} = -1"
        elif cls == "config-duplicate-column":
            key = lines[body[1]].split("=")[0].strip()
            value = lines[body[0]].split("=")[1].strip()
            lines[body[1]] = f"{key} = {value}"
        else:
            lines.insert(end, "bogus_field = 40")
    elif cls == "config-unknown-method-in-schedule":
        lines += ["", "[accounting_methods]", "1970 = bogus_method"]
    return "\n".join(lines) + "\n"


def json_config(assets: List[str], exchanges: List[str], holders: List[str]) -> str:
    layout = ods_io.default_layout()
    return json.dumps(
        {
            "in_header": layout["columns"]["IN"],
            "out_header": layout["columns"]["OUT"],
            "intra_header": layout["columns"]["INTRA"],
            "assets": assets,
            "exchanges": exchanges,
            "holders": holders,
        },
        indent=1,
    )


def _hash_dir(path: str) -> Dict[str, str]:
    result = {}
    for name in sorted(os.listdir(path)) if os.path.isdir(path) else []:
        with open(os.path.join(path, name), "rb") as handle:
            result[name] = hashlib.sha256(handle.read()).hexdigest()
    return result


# ---------------------------------------------------------------------------------------------------------


def make_base(rng: random.Random, index: int) -> Dict[str, Any]:
    for _ in range(50):
        hists = cli_histories(rng, 2, cli_profile(max_events=14, min_events=8, p_in=0.4, p_out=0.3, p_intra=0.3, n_exchanges=2, n_holders=2, allow_in_crypto_fee=False, p_in_fiat_fee=0.0, p_optional_fiat=0.0))
        if all({r["t"] for r in h["rows"]} == {"IN", "OUT", "INTRA"} for h in hists.values()):
            break
    need = {"IN": {"crypto_fee", "fiat_fee", "asset"}, "OUT": {"asset"}, "INTRA": {"asset"}}
    layout = ods_io.default_layout() if index % 2 == 0 else ods_io.random_layout(rng, need=need)
    return {"hists": hists, "layout": layout, "writer_seed": rng.randint(0, 10**9)}


class Base:
    """Files of one valid base input plus the reports of its good run (for the pre-filled mode)."""

    def __init__(self, ctx: Any, case: Dict[str, Any], name: str) -> None:
        self.case = case
        self.root = os.path.join(ctx.scratch, name)
        os.makedirs(self.root, exist_ok=True)
        self.hists = copy.deepcopy(case["hists"])
        self.assets = sorted(self.hists)
        self.exchanges = sorted({e for h in self.hists.values() for e in h["exchanges"]})
        self.holders = sorted({x for h in self.hists.values() for x in h["holders"]})
        self.good_ini = os.path.join(self.root, "good.ini")
        self.good_ods = os.path.join(self.root, "good.ods")
        self.ini_text = ods_io.ini_text(self.assets, self.exchanges, self.holders, case["layout"])
        with open(self.good_ini, "w", encoding="utf-8") as handle:
            handle.write(self.ini_text)
        ods_io.write_input(self.good_ods, self.hists, case["layout"], random.Random(case["writer_seed"]))
        self.good_out = os.path.join(self.root, "good_out")
        os.makedirs(self.good_out, exist_ok=True)
        self.n = 0

    def run_good(self) -> Any:
        return run_cli("us", self.good_ini, self.good_ods, self.good_out, self.root, ["-m", "fifo"], audit=False)

    def run_fault(self, fault: Dict[str, Any], prefilled: bool) -> Tuple[Any, Dict[str, str], Dict[str, str]]:
        self.n += 1
        work = os.path.join(self.root, f"f{self.n}")
        os.makedirs(work, exist_ok=True)
        ini, ods = self.good_ini, self.good_ods
        args = ["-m", "fifo"]
        country = "us"
        env = None
        layout = self.case["layout"]
        if fault["kind"] == "row":
            hists = copy.deepcopy(self.case["hists"])
            row = next(r for r in hists[fault["asset"]]["rows"] if r["uid"] == fault["uid"] and r["t"] == fault["table"])
            row.update(fault["edit"])
            ods = os.path.join(work, "input.ods")
            ods_io.write_input(ods, hists, layout, random.Random(self.case["writer_seed"]))
        elif fault["kind"] == "grid":
            hists = copy.deepcopy(self.case["hists"])
            ods = os.path.join(work, "input.ods")
            ods_io.write_input(ods, hists, layout, random.Random(self.case["writer_seed"]), faults={"asset": fault["asset"], "grid_edit": grid_edit_for(fault)})
        elif fault["kind"] == "ini":
            ini = os.path.join(work, "config.json" if fault["class"] == "config-deprecated-json" else "config.ini")
            text = json_config(self.assets, self.exchanges, self.holders) if fault["class"] == "config-deprecated-json" else mutate_ini(self.ini_text, fault)
            with open(ini, "w", encoding="utf-8") as handle:
                handle.write(text)
            if fault["class"] == "config-unknown-method-in-schedule":
                args = []  # with -m the run would be refused for the -m / [accounting_methods] conflict instead
        else:
            country = fault["country"]
            args = list(fault["args"])
            env = fault.get("env")
            if fault.get("ini_methods"):
                ini = os.path.join(work, "config.ini")
                with open(ini, "w", encoding="utf-8") as handle:
                    handle.write(ods_io.ini_text(self.assets, self.exchanges, self.holders, layout, {int(k): v for k, v in fault["ini_methods"].items()}))
        out = os.path.join(work, "out")
        if prefilled:
            shutil.copytree(self.good_out, out)
        else:
            os.makedirs(out)
        before = _hash_dir(out)
        res = run_cli(country, ini, ods, out, work, args, env_extra=env, audit=False)
        after = _hash_dir(out)
        if fault.get("padded_name") and res.exit == 0 and res.report("rp2_full_report"):
            from rpv.oracle.reports import FullReport

            try:
                report = FullReport(res.report("rp2_full_report"), "en")
                res.accounts = sorted({(str(line["ex"]), str(line["ho"])) for asset in self.assets for line in report.balances(asset)[0]})  # type: ignore[attr-defined]
            except Exception as exc:  # pylint: disable=broad-except
                res.accounts = [("unreadable report", str(exc)[:80])]  # type: ignore[attr-defined]
        shutil.rmtree(work, ignore_errors=True)
        return res, before, after

    def cleanup(self) -> None:
        shutil.rmtree(self.root, ignore_errors=True)


def judge(ctx: Any, fault: Dict[str, Any], res: Any, before: Dict[str, str], after: Dict[str, str], case: Dict[str, Any]) -> None:
    ctx.count("executions")
    ctx.count("faulted_runs")
    ctx.tag("tag_class", fault["class"])
    where = {k: v for k, v in fault.items() if k in ("asset", "table", "uid", "section", "field", "country", "args", "env", "edit", "spelling")}
    ctx.distinct("nontrivial", {"base": case["writer_seed"], "fault": fault})
    detail = {"class": fault["class"], "where": where}
    if res.timed_out:
        ctx.violation("faults.run-hangs", detail, dict(case, fault=fault))
        return
    if res.exit == 0 and fault.get("padded_name") and hasattr(res, "accounts"):
        known_exchanges = {e for h in case["hists"].values() for e in h["exchanges"]}
        known_holders = {x for h in case["hists"].values() for x in h["holders"]}
        phantom = [a for a in res.accounts if a[0] not in known_exchanges or a[1] not in known_holders]
        if phantom:
            ctx.violation("faults.accepted", dict(detail, booked_on_an_account_the_config_does_not_know=phantom[:3]), dict(case, fault=fault))
        else:
            ctx.count("padded_names_accepted_on_the_configured_account")
        return
    if res.exit == 0:
        ctx.violation("faults.accepted", dict(detail, files=sorted(after)), dict(case, fault=fault))
        return
    message = (res.stderr + res.stdout).strip()
    if not message:
        ctx.violation("faults.no-error-message", detail, dict(case, fault=fault))
    if after != before:
        ctx.violation("faults.report-written-or-modified", dict(detail, before=sorted(before), after=sorted(after)), dict(case, fault=fault))
    ctx.tag("tag_exit_codes", str(res.exit))


def run_shard(ctx: Any) -> None:
    settings = SETTINGS[ctx.tier]
    for b in range(settings["bases"]):
        if ctx.expired():
            break
        rng = ctx.rng("base", b)
        case = make_base(rng, b)
        faults = enumerate_faults(case["hists"], settings["positions"], ctx.rng("positions", b))
        mine = [(k, f) for k, f in enumerate(faults) if k % ctx.nshards == ctx.shard]
        if not mine:
            continue
        base = Base(ctx, case, f"base{b}")
        try:
            good = base.run_good()
            if good.exit != 0 or not good.files:
                # the unfaulted twin must succeed, otherwise the fault is not the only difference
                ctx.notes.append(f"base {b} does not run: {good.stderr[-300:]}")
                ctx.count("unobservable", len(mine))
                ctx.count("valid_cases", len(mine))
                continue
            ctx.count("valid_cases", len(mine))
            ctx.count("good_runs")
            for k, fault in mine:
                if ctx.expired():
                    break
                res, before, after = base.run_fault(fault, prefilled=(k % 3 == 0))
                judge(ctx, fault, res, before, after, case)
                if k % 3 == 0:
                    ctx.count("prefilled_output_dir_runs")
            ctx.sample({"base_rows": {a: len(h["rows"]) for a, h in case["hists"].items()}, "faults_enumerated": len(faults), "example_fault": mine[0][1]}, limit=1)
        finally:
            base.cleanup()


def replay(ctx: Any, case: Dict[str, Any]) -> None:
    fault = case["fault"]
    base = Base(ctx, case, "replay")
    try:
        good = base.run_good()
        if good.exit != 0:
            ctx.notes.append("base does not run")
            return
        res, before, after = base.run_fault(fault, prefilled=False)
        judge(ctx, fault, res, before, after, case)
        res, before, after = base.run_fault(fault, prefilled=True)
        judge(ctx, fault, res, before, after, case)
    finally:
        base.cleanup()


def coverage(merged: Dict[str, Any], tier: str) -> Dict[str, Any]:
    c = merged["counters"]
    return {
        "evaluations": c.get("executions", 0),
        "distinct_nontrivial": len(merged["sets"].get("nontrivial", ())),
        "exhaustive": False,
        "fault_classes_injected": sorted(merged["sets"].get("tag_class", ())),
        "events_checked": {"faulted_runs": c.get("faulted_runs", 0), "runs_into_a_prefilled_output_directory": c.get("prefilled_output_dir_runs", 0), "unfaulted_twin_runs": c.get("good_runs", 0)},
        "exit_codes_seen": sorted(merged["sets"].get("tag_exit_codes", ())),
    }
