"""C04 - proceeds, cost basis and gain of every fraction are arithmetically exact.

Three monitors over real compute_tax runs:
 1. recomputation of every fraction in exact rational arithmetic from the *input* fields (documented derivations),
    bound 1e-15 relative;
 2. re-assembly: an event's fractions add back to its taxable fiat value, a fully consumed lot's to its full cost;
 3. no binary floating point: (a) sys.monitoring CALL events on every code object of the computation modules - a call
    to float(), Decimal.from_float, __float__ or math.* from those frames is a violation; (b) canary inputs whose every
    intermediate is a short terminating decimal, where the result must equal the rational result *exactly*.
"""

from __future__ import annotations

import random
from datetime import timedelta
from decimal import Decimal
from fractions import Fraction
from typing import Any, Dict, List

from rpv import families
from rpv.checks.inproc_util import get_ip, sched_from_json, sched_json
from rpv.gen import METHODS, OUT_TYPES, Profile, history
from rpv.model import Model
from rpv.workload import deepen
from rpv.oracle.balance import is_valid
from rpv.oracle.trace import ExactStats, check_exact

PROPERTY_ID = "C04"
LEVEL = "exploration"
RULE = (
    "valid generated histories with amounts 1e-11..1e9, prices 1e-8..1e7, tiny fractions of huge lots, thirds/sevenths, "
    "with and without each optional exchange-supplied fiat column (consistent or deliberately different), fees on both "
    "sides, x methods (fractioning differs); plus canary histories (amounts of the form 2^a5^b, prices 0.07/0.1/1.3...) "
    "that must match the rational result exactly; CLI slice: real rp2_us runs on spreadsheets with crypto fees on acquisitions "
    "and exchange-supplied fiat columns, Proceeds / Cost Basis / Gain of the Gain / Loss Detail table and of tax_report_us.ods "
    "recomputed from the spreadsheet rows. Non-trivial = a run with >= 1 disposal fraction whose lot and event "
    "are both only partially used; distinct = hash of (history, method). "
    "The repository's own example inputs (input/*.ods read independently of RP2's parser, every method and the config's schedule, -n) are part of the workload"
)
ASSUMPTIONS = [
    "fiat values default to amount x spot price; exchange-supplied fiat_in_no_fee / fiat_in_with_fee / fiat_fee / fiat_out_no_fee replace them when given",
    "the float monitor covers rp2.* modules except rp2.plugin.report.* and rp2.ods_parser (which must handle spreadsheet doubles)",
    "report cells are doubles: the CLI slice compares them with the rational values at 1e-12 relative",
]
SETTINGS: Dict[str, Dict[str, Any]] = {
    "quick": {"cases": 2400, "cli_cases": 32, "budget_s": 60, "minimums": {"corpus_runs": 100, "fractions": 15000, "nontrivial": 500, "canary_fractions": 1500, "monitored_calls": 100000, "cli_fractions": 150, "cli_tax_report_rows": 150}},
    "thorough": {"cases": 100000, "cli_cases": 480, "budget_s": 360, "minimums": {"corpus_runs": 100, "fractions": 360000, "nontrivial": 12000, "canary_fractions": 30000, "monitored_calls": 3000000, "cli_fractions": 1500, "cli_tax_report_rows": 1500}},
}

PROFILES = [
    Profile(amount_style="mixed", price_style="wide", p_optional_fiat=0.5, max_events=18),
    Profile(amount_style="huge", price_style="wide", p_optional_fiat=0.3, max_events=14),
    Profile(amount_style="huge", price_style="digits", p_optional_fiat=0.2, p_intra=0.35, max_events=14),  # products that do not fit 31 digits
    Profile(amount_style="dust", price_style="wide", p_optional_fiat=0.3, max_events=14, min_transfer_fee_fiat=Decimal("0.0000000001")),
    Profile(amount_style="dec11", price_style="mixed", p_optional_fiat=0.6, p_inconsistent_fiat=0.8, p_in_fiat_fee=0.6, p_out_crypto_fee=0.7, max_events=20),
    Profile(amount_style="mixed", price_style="mixed", p_earn=0.6, p_optional_fiat=0.4),
]

CANARY_AMOUNTS = ["1", "2", "4", "5", "8", "10", "16", "20", "25", "40", "50", "100", "0.5", "0.25", "0.2", "0.125", "1.6", "3.2"]
CANARY_PRICES = ["0.07", "0.1", "1.3", "0.21", "3.3", "0.7", "1.1", "0.3", "19.99", "0.9"]


def canary(rng: random.Random) -> Dict[str, Any]:
    """Every lot and event amount is 2^a5^b (so x/A and x/B terminate), every price a short decimal that is inexact in
    binary: any decimal pipeline meeting the stated bound reproduces the rational result exactly, doubles do not."""
    b = families.HB()
    t = families.T(rng.randint(2016, 2021), rng.randint(1, 12), rng.randint(1, 28))
    held = Decimal(0)
    for _ in range(rng.randint(2, 6)):
        amount = Decimal(rng.choice(CANARY_AMOUNTS))
        b.acquire(t, amount, rng.choice(CANARY_PRICES), ttype=rng.choice(("BUY", "BUY", "INTEREST", "GIFT")))
        held += amount
        t += timedelta(days=rng.randint(1, 200))
    for _ in range(rng.randint(1, 6)):
        options = [Decimal(a) for a in CANARY_AMOUNTS if Decimal(a) <= held]
        if not options:
            break
        amount = rng.choice(options)
        b.dispose(t, amount, rng.choice(CANARY_PRICES), ttype=rng.choice([x for x in OUT_TYPES if x != "FEE"]))
        held -= amount
        t += timedelta(days=rng.randint(1, 200))
    return b.done(rng, shuffle=True)


def _observe(ctx: Any, ip: Any, monitor: Any, hist: Dict[str, Any], sched: Dict[int, str], exact: bool) -> None:
    from rpv.drive_inproc import trace_of

    model = Model(hist)
    case = {"hist": hist, "schedule": sched_json(sched), "exact": exact}
    hits_before = len(monitor.hits) if monitor is not None else 0
    if monitor is not None:
        monitor.armed = True
    try:
        res = ip.run(hist, sched)
        trace = trace_of(res.computed) if res.ok else []
    finally:
        if monitor is not None:
            monitor.armed = False
    ctx.count("executions")
    ctx.count("valid_cases")
    if not res.ok:
        ctx.count("unobservable")
        ctx.tag("tag_unobservable", res.error[:80])
        return
    stats = ExactStats()
    violations = check_exact(model, trace, stats, exact=exact)
    ctx.count("fractions", stats.fractions)
    ctx.count("canary_fractions" if exact else "general_fractions", stats.fractions)
    ctx.count("reassembled_events", stats.reassembled_events)
    ctx.count("reassembled_lots", stats.reassembled_lots)
    ctx.maximum("max_rel_err", float(stats.max_rel_err))
    if monitor is not None and len(monitor.hits) > hits_before:
        ctx.violation("exact.binary-float-in-computation", {"calls": [list(h) for h in monitor.hits[hits_before : hits_before + 5]]}, case)
    consumed: Dict[int, Fraction] = {}
    for f in trace:
        if f.lot is not None:
            consumed[f.lot] = consumed.get(f.lot, Fraction(0)) + f.amount
    partial = any(
        f.lot is not None and f.amount < model.events[f.event].amount and f.amount < model.lots[f.lot].amount for f in trace if f.event in model.events and (f.lot is None or f.lot in model.lots)
    )
    if partial:
        ctx.distinct("nontrivial", case)
        ctx.sample({"rows": hist["rows"][:5], "n_rows": len(hist["rows"]), "trace": [f.to_json() for f in trace[:5]], "max_rel_err": float(stats.max_rel_err)})
    for v in violations:
        ctx.violation(v["rule"], v["detail"], case)


def run_shard(ctx: Any) -> None:
    from rpv.checks import corpus_slice

    corpus_slice.run(ctx, PROPERTY_ID)  # the repository's own example inputs, every method and the config's schedule
    from rpv.monitors.inproc import FloatMonitor

    ip = get_ip(ctx)
    import sys

    modules = [m for name, m in sorted(sys.modules.items()) if (name == "rp2" or name.startswith("rp2.")) and not name.startswith("rp2.plugin.report") and name != "rp2.ods_parser" and m is not None]
    monitor = FloatMonitor(modules)
    monitor.start()
    try:
        settings = SETTINGS[ctx.tier]
        share = ctx.share(settings["cases"])
        index = ctx.shard
        done = 0
        while done < share and (ctx.budget_s - ctx.time_left()) < ctx.budget_s * 0.75:
            rng = ctx.rng("case", index)
            if index % 4 == 3:
                hist = canary(rng)
                if is_valid(Model(hist)):
                    for method in METHODS:
                        _observe(ctx, ip, monitor, hist, {1970: method}, exact=True)
            else:
                hist = history(rng, deepen(ctx, index, PROFILES[index % len(PROFILES)]))
                if is_valid(Model(hist)):
                    for method in rng.sample(list(METHODS), 2):
                        _observe(ctx, ip, monitor, hist, {1970: method}, exact=False)
                else:
                    ctx.count("generated_invalid")
            index += ctx.nshards
            done += 1
        ctx.count("inputs", done)
        ctx.count("monitored_calls", monitor.calls_seen)
        ctx.count("monitored_code_objects", len(monitor.codes) if ctx.shard == 0 else 0)
        for module in modules:
            ctx.tag("tag_monitored_modules", module.__name__)
    finally:
        monitor.stop()
    # second observation point: Proceeds / Cost Basis / Gain columns of the reports of real CLI runs (parser included:
    # crypto fees on acquisitions together with exchange-supplied fiat values only exist on that path)
    from rpv.checks import cli_slices

    cli_slices.c04(ctx, SETTINGS[ctx.tier]["cli_cases"])


def replay(ctx: Any, case: Dict[str, Any]) -> None:
    if case.get("corpus"):
        from rpv.checks import corpus_slice

        corpus_slice.replay(ctx, PROPERTY_ID, case)
        return
    from rpv.monitors.inproc import FloatMonitor
    import sys

    if case.get("cli"):
        from rpv.checks import cli_slices

        cli_slices.c04_replay(ctx, case)
        return

    ip = get_ip(ctx)
    modules = [m for name, m in sorted(sys.modules.items()) if (name == "rp2" or name.startswith("rp2.")) and not name.startswith("rp2.plugin.report") and name != "rp2.ods_parser" and m is not None]
    monitor = FloatMonitor(modules)
    monitor.start()
    try:
        _observe(ctx, ip, monitor, case["hist"], sched_from_json(case["schedule"]), case.get("exact", False))
    finally:
        monitor.stop()


def coverage(merged: Dict[str, Any], tier: str) -> Dict[str, Any]:
    c = merged["counters"]
    return {
        "evaluations": c.get("executions", 0),
        "distinct_nontrivial": len(merged["sets"].get("nontrivial", ())),
        "events_checked": {
            "fractions_recomputed": c.get("fractions", 0),
            "canary_fractions_exact": c.get("canary_fractions", 0),
            "events_reassembled": c.get("reassembled_events", 0),
            "lots_reassembled": c.get("reassembled_lots", 0),
            "calls_seen_by_float_monitor": c.get("monitored_calls", 0),
            "code_objects_monitored": c.get("monitored_code_objects", 0),
            "cli_detail_fractions_recomputed": c.get("cli_fractions", 0),
            "cli_tax_report_us_rows_recomputed": c.get("cli_tax_report_rows", 0),
            "cli_inputs_with_crypto_fee_and_supplied_fiat_on_a_lot": c.get("cli_lots_with_crypto_fee_and_supplied_fiat", 0),
        },
        "largest_relative_error_observed": merged["maxima"].get("max_rel_err"),
    }
