"""C16 - every supported option combination runs to completion on every valid input.

Full enumeration of the option matrix country x method x language x {no filter, from, to, from+to} per generated valid
input, observed at the process boundary of real CLI runs (exit status, stderr, files in the output directory).
"""

from __future__ import annotations

import os
from datetime import date, timedelta
from typing import Any, Dict, List, Optional, Tuple

from rpv import families
from rpv.checks.inproc_util import candidate_days
from rpv.cli_core import cli_histories, cli_profile
from rpv.drive_cli import COUNTRIES, COUNTRY_LANGUAGES, COUNTRY_METHODS, COUNTRY_REPORTS, Workspace
from rpv.gen import ALL_IN_TYPES, EARN_TYPES, OUT_TYPES, parse_ts

PROPERTY_ID = "C16"
LEVEL = "exploration"
RULE = (
    "per generated valid input the complete matrix country {us,jp,es,ie,generic} x method {each accepted, none} x "
    "language {each language the country ships a template for, none} x filter {none, from, to, from+to} (136 tuples) is "
    "run through the real CLI, plus 8 runs per input with the method given as an [accounting_methods] schedule in the config "
    "(changes of method at years the data spans, between fifo and the heap-based methods) x {us, generic} x filter; inputs rotate over shapes: single asset, multi asset, sparse years, an asset fully sold, an "
    "asset with income only, all 14 transaction types; windows are drawn mid-year, on event dates, right after an asset's "
    "last event of a year, empty, before an asset's first acquisition, and between transactions whose own-date order is the "
    "reverse of their instant order (mixed UTC offsets around new year); every tuple draws its own window. Oracle: exit 0, no traceback, exactly the files <prefix><method|mixed>_<report>.ods "
    "of the country's generators. Non-trivial = a tuple with a date filter or a non-default method/language; distinct = "
    "hash of (input, tuple)"
)
ASSUMPTIONS = [
    "the generic country is run with CURRENCY_CODE=usd and LONG_TERM_CAPITAL_GAINS=365",
    "transfers of an instant are credited before the instant's out-transactions are debited, as the pinned tree does (shape same-instant-transfer-then-sale: day-granular exports); chains of transfers inside one instant are unspecified and not generated",
    "KF2 (rp2_jp without -g: default language ja has no templates) and KF3 (rp2_jp refuses -f together with -t) are recorded findings, keyed by country, options and error message",
]
SETTINGS: Dict[str, Dict[str, Any]] = {
    "quick": {"inputs": 5, "budget_s": 100, "minimums": {"cli_runs": 500, "nontrivial": 400, "inverted_cut_runs": 20, "runs_with_config_method_schedule": 20, "runs_restricted_to_one_asset": 15}, "required_tags": {"tag_country": list(COUNTRIES), "tag_filter": ["none", "from", "to", "from+to"]}},
    "thorough": {"inputs": 32, "budget_s": 480, "minimums": {"cli_runs": 1800, "nontrivial": 1500, "inverted_cut_runs": 90, "runs_with_config_method_schedule": 90}, "required_tags": {"tag_country": list(COUNTRIES), "tag_filter": ["none", "from", "to", "from+to"]}},
}
SHAPES = ["all-types", "inverted-dates", "same-instant-transfer-then-sale", "many-lots+sold-in-thirds", "multi-asset-sparse", "fully-sold+income-only", "single-asset", "multi-asset", "sparse-years", "mixed-offsets"]


def matrix() -> List[Tuple[str, Optional[str], Optional[str], str]]:
    tuples = []
    for country in COUNTRIES:
        for method in COUNTRY_METHODS[country] + [None]:
            for language in COUNTRY_LANGUAGES[country] + [None]:
                for filt in ("none", "from", "to", "from+to"):
                    tuples.append((country, method, language, filt))
    return tuples


def all_types_history(rng: Any, asset: str = "AAA") -> Dict[str, Any]:
    b = families.HB(asset=asset, exchanges=("Coinbase", "Coinbase_Pro"), holders=("Pro_Bob", "Bob"))
    t = families.T(rng.randint(2016, 2019), rng.randint(1, 12), rng.randint(1, 28), 10)
    for ttype in ALL_IN_TYPES:
        b.acquire(t, rng.choice((2, 5, 10)), rng.randint(50, 500), ttype=ttype, ex=rng.choice(b.exchanges), ho="Pro_Bob")
        t += timedelta(days=rng.randint(10, 90))
    b.move(t, 3, "2.99", 120, (b.rows[0]["ex"], "Pro_Bob"), ("Coinbase_Pro", "Bob"))
    t += timedelta(days=20)
    b.move(t, 1, 1, None, ("Coinbase_Pro", "Bob"), ("Coinbase", "Bob"))
    for ttype in OUT_TYPES:
        t += timedelta(days=rng.randint(10, 120))
        source = rng.choice([r for r in b.rows if r["t"] == "IN"])
        row = b.dispose(t, "0.5", rng.randint(50, 500), ttype=ttype, ex=source["ex"], ho="Pro_Bob", cfee="0.01" if ttype not in ("FEE",) else "0")
        if ttype in ("GIFT", "SELL") and rng.random() < 0.7:
            row["ffee"] = "0"  # the export values the crypto fee at 0.00: an explicit zero in an optional cell is a supplied value
    return b.done(rng, shuffle=True)


def shaped_input(rng: Any, shape: str) -> Dict[str, Dict[str, Any]]:
    if shape == "all-types":
        # ... next to a sub-cent coin with a dust transfer fee (worth less than 5e-14 fiat: FX9)
        return {"AAA": all_types_history(rng), "BBB": families.tiny_fee_transfer(rng, "BBB")}
    if shape == "inverted-dates":
        # events around new year / a day boundary in far-apart UTC offsets: own-date order is the reverse of instant order
        first, _ = families.inverted_dates(rng, "AAA", at_new_year=True)
        second, _ = families.inverted_dates(rng, "BBB", at_new_year=rng.random() < 0.5)
        return {"AAA": first, "BBB": second}
    if shape == "many-lots+sold-in-thirds":
        # an asset whose fractions outnumber its taxable events by dozens; an asset sold completely in thirds / sevenths
        return {"AAA": families.many_lots_one_sale(rng, "AAA"), "BBB": families.sold_in_thirds(rng, "BBB")}
    if shape == "same-instant-transfer-then-sale":
        return {"AAA": families.same_instant_transfer_then_sale(rng, "AAA"), "BBB": families.same_instant_transfer_then_sale(rng, "BBB")}
    if shape == "mixed-offsets":
        return cli_histories(rng, 2, cli_profile(mixed_tz=True, gap_style=rng.choice(("short", "boundary", "mixed")), tie_prob=0.2, max_events=14, min_events=6))
    if shape == "single-asset":
        # ... plus a sub-cent coin with a dust transfer fee (worth less than 5e-14 fiat)
        return dict(cli_histories(rng, 1), BBB=families.tiny_fee_transfer(rng, "BBB"))
    if shape == "multi-asset":
        return cli_histories(rng, 3)
    if shape == "sparse-years":
        return cli_histories(rng, 1, cli_profile(gap_style="long", max_events=10, min_events=5))
    if shape == "multi-asset-sparse":
        return cli_histories(rng, 2, cli_profile(gap_style="long", max_events=10, min_events=4))
    # an asset fully sold and an asset with income only
    sold = families.HB(asset="AAA")
    t = families.T(rng.randint(2016, 2020), 3, 1)
    sold.acquire(t, 4, 100)
    sold.acquire(t + timedelta(days=30), 6, 150, ttype="INTEREST")
    sold.dispose(t + timedelta(days=400), 7, 300)
    sold.dispose(t + timedelta(days=800), 3, 310, ttype="GIFT")
    income = families.HB(asset="BBB")
    for k in range(rng.randint(1, 4)):
        income.acquire(t + timedelta(days=200 * k), rng.choice((1, 2)), 10 + k, ttype=rng.choice(EARN_TYPES))
    if rng.random() < 0.5:
        return {"AAA": families.sold_in_thirds(rng, "AAA"), "BBB": income.done(rng), "CCC": families.many_lots_one_sale(rng, "CCC")}
    return {"AAA": sold.done(rng), "BBB": income.done(rng)}


def windows_for(rng: Any, hists: Dict[str, Dict[str, Any]]) -> Dict[str, Tuple[Optional[str], Optional[str]]]:
    """One date pair per filter kind: mid-year / on an event date / right after an asset's last event of a year / empty."""
    dates = sorted({parse_ts(r["ts"]).date() for h in hists.values() for r in h["rows"]})
    last_of_year: Dict[int, date] = {}
    for d in dates:
        last_of_year[d.year] = max(d, last_of_year.get(d.year, d))
    after_last = [d + timedelta(days=1) for d in last_of_year.values() if (d + timedelta(days=1)).year == d.year]
    pool_from = after_last + [date(dates[len(dates) // 2].year, 7, 1), rng.choice(dates), dates[-1] + timedelta(days=40)]
    pool_to = [date(dates[len(dates) // 2].year, 7, 1), rng.choice(dates), dates[0] - timedelta(days=10), dates[-1]]
    # a to-date before some asset's first acquisition but after another asset's
    firsts = sorted(min(parse_ts(r["ts"]).date() for r in h["rows"]) for h in hists.values())
    if len(firsts) > 1 and firsts[0] < firsts[-1]:
        pool_to.append(firsts[-1] - timedelta(days=1))
    # cuts between two transactions whose own-date order is the reverse of their instant order (mixed UTC offsets)
    from datetime import timezone as _tz

    for h in hists.values():
        ordered = sorted((parse_ts(r["ts"]) for r in h["rows"]), key=lambda t: t.astimezone(_tz.utc))
        for a, b in zip(ordered, ordered[1:]):
            if a.date() > b.date():
                pool_to += [b.date(), b.date()]
                pool_from += [a.date(), a.date()]
    f = rng.choice(pool_from)
    t = rng.choice(pool_to)
    f2 = rng.choice(pool_from)
    t2 = rng.choice([d for d in pool_to + [f2, f2 + timedelta(days=3), dates[-1] + timedelta(days=400)] if d >= f2] or [f2])
    return {"none": (None, None), "from": (f.isoformat(), None), "to": (None, t.isoformat()), "from+to": (f2.isoformat(), t2.isoformat())}


def method_schedule(rng: Any, hists: Dict[str, Dict[str, Any]]) -> Dict[int, str]:
    """[accounting_methods] schedule starting at 1970 that changes method at 1-3 of the years the data spans (new years of
    the data first), alternating between the chronological method and the heap-based ones."""
    years = sorted({parse_ts(r["ts"]).year for h in hists.values() for r in h["rows"]} | {parse_ts(r["ts"]).astimezone(__import__("datetime").timezone.utc).year for h in hists.values() for r in h["rows"]})
    switch_years = [y for y in years if y > years[0]] or [years[0] + 1]
    rng.shuffle(switch_years)
    chosen = sorted(switch_years[: rng.randint(1, min(3, len(switch_years)))])
    first = rng.choice(("fifo", "fifo", "hifo", "lifo", "lofo"))
    sched = {1970: first}
    previous = first
    for y in chosen:
        options = [m for m in ("fifo", "hifo", "lifo", "lofo") if m != previous]
        # prefer a change between fifo and a heap-based method
        nxt = "fifo" if previous != "fifo" and rng.random() < 0.6 else rng.choice([m for m in options if m != "fifo"] or options)
        sched[y] = nxt
        previous = nxt
    return sched


def expected_files(country: str, method: Optional[str], prefix: str, mixed: bool = False) -> List[str]:
    word = "mixed" if mixed else (method or "fifo")
    return sorted(f"{prefix}{word}_{name}.ods" for name in COUNTRY_REPORTS[country])


def classify(country: str, language: Optional[str], filt: str, res: Any) -> str:
    text = res.stderr
    if country == "jp" and language is None and "Language ja not supported for country jp" in text:
        return "KF2"
    if country == "jp" and filt == "from+to" and "To and From Dates can not be specified for the JP tax report" in text:
        return "KF3"
    return ""


def _inverted_cut(hists: Dict[str, Any], window: Tuple[Optional[str], Optional[str]]) -> bool:
    """True when a bound of the window falls between two transactions whose own-date order is the reverse of their instant order."""
    from datetime import timezone as _tz

    for bound, is_to in ((window[0], False), (window[1], True)):
        if not bound:
            continue
        day = date.fromisoformat(bound)
        for h in hists.values():
            ordered = sorted((parse_ts(r["ts"]) for r in h["rows"]), key=lambda t: t.astimezone(_tz.utc))
            seen_after = False
            for t in ordered:
                inside = t.date() <= day if is_to else t.date() < day
                if not inside:
                    seen_after = True
                elif seen_after:
                    return True
    return False


def _run_tuple(ctx: Any, ws: Workspace, hists: Dict[str, Any], shape: str, tup: Tuple[str, Optional[str], Optional[str], str], window: Tuple[Optional[str], Optional[str]], prefix: str, input_seed: Any, ini_methods: Optional[Dict[int, str]] = None, only_asset: Optional[str] = None, config_assets: Optional[List[str]] = None) -> None:
    country, method, language, filt = tup
    args: List[str] = []
    if only_asset:
        args += ["-a", only_asset]
        ctx.count("runs_restricted_to_one_asset")
    if method:
        args += ["-m", method]
    if language:
        args += ["-g", language]
    if window[0]:
        args += ["-f", window[0]]
    if window[1]:
        args += ["-t", window[1]]
    if prefix:
        args += ["-p", prefix]
    res = ws.run(country, args, audit=False)
    ctx.count("executions")
    ctx.count("cli_runs")
    ctx.tag("tag_country", country)
    ctx.tag("tag_filter", filt)
    ctx.tag("tag_shape", shape)
    case = {"shape": shape, "input_seed": input_seed, "hists": hists, "tuple": list(tup), "window": list(window), "prefix": prefix, "ini_methods": {str(k): v for k, v in (ini_methods or {}).items()}, "only_asset": only_asset, "config_assets": config_assets}
    if ini_methods:
        ctx.count("runs_with_config_method_schedule")
    if _inverted_cut(hists, window):
        ctx.count("inverted_cut_runs")
    if filt != "none" or method not in (None, "fifo") or language is not None:
        ctx.distinct("nontrivial", {"i": input_seed, "t": list(tup)})
    problems: List[Tuple[str, Dict[str, Any]]] = []
    if res.timed_out:
        problems.append(("totality.timeout", {}))
    elif res.exit != 0:
        tail = [line for line in res.stderr.strip().splitlines() if line.strip()][-1:] or [""]
        problems.append(("totality.non-zero-exit", {"exit": res.exit, "error": tail[0][:300]}))
    else:
        expected = expected_files(country, method, prefix, mixed=bool(ini_methods) and len(ini_methods) > 1)
        if ini_methods and len(ini_methods) == 1:
            expected = expected_files(country, next(iter(ini_methods.values())), prefix)
        if res.files != expected:
            problems.append(("totality.output-files", {"files": res.files, "expected": expected}))
        if "Traceback (most recent call last)" in res.stderr:
            problems.append(("totality.traceback-on-stderr", {"tail": res.stderr[-300:]}))
    mechanism = classify(country, language, filt, res) if problems else ""
    for rule, detail in problems:
        ctx.violation(rule, dict(detail, tuple=list(tup), window=list(window)), case, mechanism=mechanism)
    if not problems:
        ctx.sample({"shape": shape, "tuple": list(tup), "window": list(window), "files": res.files}, limit=1)


def run_shard(ctx: Any) -> None:
    settings = SETTINGS[ctx.tier]
    tuples = matrix()
    # per input: the whole option matrix, then 8 more runs with the method given as an [accounting_methods] schedule in the
    # config (us and generic accept several methods) x each filter kind; those are numbered len(tuples) .. len(tuples) + 7
    # ... and 6 runs restricted to one asset with -a (countries and filters in rotation), half of them with a config that also
    # lists assets whose sheets are not in the file (-a makes them irrelevant)
    work = [(i, k) for i in range(settings["inputs"]) for k in range(len(tuples) + 8 + 6)]
    mine = work[ctx.shard :: ctx.nshards]
    current: Optional[int] = None
    ws: Optional[Workspace] = None
    hists: Dict[str, Any] = {}
    windows: Dict[str, Any] = {}
    shape = ""
    try:
        for i, k in mine:
            if ctx.expired():
                break
            if i != current:
                if ws is not None:
                    ws.cleanup()
                rng = ctx.rng("input", i)
                shape = SHAPES[i % len(SHAPES)]
                hists = shaped_input(rng, shape)
                windows = windows_for(rng, hists)
                ws = Workspace(ctx.scratch, f"in{i}")
                ws.write(hists)
                current = i
            if k >= len(tuples) + 8:
                j = k - len(tuples) - 8
                country = COUNTRIES[(i + j) % len(COUNTRIES)]
                arng = ctx.rng("one-asset", i, j)
                tup = (country, arng.choice(COUNTRY_METHODS[country]), "en" if country == "jp" else None, ("none", "from", "to")[j % 3])
                asset = arng.choice(sorted(hists))
                ws_a = Workspace(ctx.scratch, f"in{i}-asset{j}")
                try:
                    listed = sorted(hists)
                    if j % 2:
                        # the file holds this asset's sheet only; the config still lists the others and one that never had a sheet
                        listed = sorted(set(hists) | {"ZZZ"})
                        ws_a.write({asset: hists[asset]}, config_assets=listed)
                    else:
                        ws_a.write(hists)
                    windows = windows_for(ctx.rng("window", i, k), {asset: hists[asset]})
                    _run_tuple(ctx, ws_a, hists, shape, tup, windows[tup[3]], "", i, only_asset=asset, config_assets=listed)
                finally:
                    ws_a.cleanup()
                continue
            if k >= len(tuples):
                j = k - len(tuples)
                tup = (("us", "generic")[j % 2], None, None, ("none", "from", "to", "from+to")[j // 2])
                srng = ctx.rng("schedule", i, j)
                sched = method_schedule(srng, hists)
                ws_s = Workspace(ctx.scratch, f"in{i}-sched{j}")
                try:
                    ws_s.write(hists, accounting_methods=sched)
                    windows = windows_for(ctx.rng("window", i, k), hists)
                    _run_tuple(ctx, ws_s, hists, shape, tup, windows[tup[3]], "", i, ini_methods=sched)
                finally:
                    ws_s.cleanup()
                continue
            tup = tuples[k]
            prefix = "pfx_" if (i + k) % 7 == 0 else ""
            assert ws is not None
            # every tuple draws its own window (mid-year, on event dates, after an asset's last event of a year, empty,
            # before an asset's first acquisition, between own dates whose order is the reverse of the instants')
            windows = windows_for(ctx.rng("window", i, k), hists)
            _run_tuple(ctx, ws, hists, shape, tup, windows[tup[3]], prefix, i)
            # keep the scratch directory small
            for name in os.listdir(ws.root):
                if name.startswith("out"):
                    import shutil

                    shutil.rmtree(os.path.join(ws.root, name), ignore_errors=True)
        if ctx.shard == 0:
            _probe_known(ctx)
    finally:
        if ws is not None:
            ws.cleanup()


def _probe_known(ctx: Any) -> None:
    rng = ctx.rng("probe")
    hists = shaped_input(rng, "single-asset")
    ws = Workspace(ctx.scratch, "probe")
    try:
        ws.write(hists)
        d = sorted({parse_ts(r["ts"]).date() for h in hists.values() for r in h["rows"]})
        res = ws.run("jp", [], audit=False)
        ctx.known_finding("KF2", res.exit != 0 and classify("jp", None, "none", res) == "KF2", "rp2_jp without -g")
        res = ws.run("jp", ["-g", "en", "-f", d[0].isoformat(), "-t", d[-1].isoformat()], audit=False)
        ctx.known_finding("KF3", res.exit != 0 and classify("jp", "en", "from+to", res) == "KF3", "rp2_jp with -f and -t")
    finally:
        ws.cleanup()


def replay(ctx: Any, case: Dict[str, Any]) -> None:
    ws = Workspace(ctx.scratch, "replay")
    try:
        ini_methods = {int(k): v for k, v in (case.get("ini_methods") or {}).items()} or None
        only = case.get("only_asset")
        if only and case.get("config_assets") and set(case["config_assets"]) != set(case["hists"]):
            ws.write({only: case["hists"][only]}, config_assets=case["config_assets"])
        else:
            ws.write(case["hists"], accounting_methods=ini_methods)
        _run_tuple(ctx, ws, case["hists"], case["shape"], tuple(case["tuple"]), tuple(case["window"]), case["prefix"], case["input_seed"], ini_methods=ini_methods, only_asset=only, config_assets=case.get("config_assets"))
    finally:
        ws.cleanup()


def coverage(merged: Dict[str, Any], tier: str) -> Dict[str, Any]:
    c = merged["counters"]
    return {
        "evaluations": c.get("executions", 0),
        "distinct_nontrivial": len(merged["sets"].get("nontrivial", ())),
        "matrix_size": len(matrix()),
        "exhaustive_over_option_matrix_per_input": c.get("cli_runs", 0) >= len(matrix()) * SETTINGS[tier]["inputs"],
        "events_checked": {"cli_runs": c.get("cli_runs", 0)},
        "input_shapes_seen": sorted(merged["sets"].get("tag_shape", ())),
        "runs_with_a_window_bound_between_inverted_own_dates": c.get("inverted_cut_runs", 0),
    }
