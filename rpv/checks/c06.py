"""C06 - the yearly gain/loss summary equals the sum of its detail fractions.

ComputedData.yearly_gain_loss_list of real compute_tax runs (with to-dates and from-dates) is compared with exact
rational sums over the observed fractions grouped by (own-timestamp year, asset, type, long/short).
"""

from __future__ import annotations

from datetime import date
from typing import Any, Dict, List, Optional

from rpv.checks.inproc_util import candidate_days, clean_cut, get_ip, sched_from_json, sched_json
from rpv.gen import METHODS, Profile, history, own_years, schedule
from rpv.model import Model
from rpv.workload import deepen
from rpv.oracle.balance import is_valid
from rpv.oracle.trace import check_yearly

PROPERTY_ID = "C06"
LEVEL = "exploration"
RULE = (
    "valid multi-year generated histories (several types per year, disposals spanning lots on both sides of the holding "
    "threshold, events within +-14 h of New Year written in non-UTC offsets so that own-timestamp year != UTC year) x "
    "methods / schedules x {no to-date, to-dates on / next to / between event dates} x optional from-date; yearly lines "
    "of each run vs Fraction sums over the fractions of the unfiltered run of the same history. Non-trivial = >= 2 yearly "
    "lines of which one sums >= 2 fractions; distinct = hash of (history, schedule, to, from). "
    "The repository's own example inputs (input/*.ods read independently of RP2's parser, every method and the config's schedule, -n) are part of the workload"
)
ASSUMPTIONS = [
    "to-dates are only used where own-date order and instant order agree across the cut (the rest is known finding KF1 of C10)",
    "that filtered fraction records equal unfiltered ones is C10's subject; here the unfiltered run supplies the fractions",
]
SETTINGS: Dict[str, Dict[str, Any]] = {
    "quick": {"cases": 1500, "cli_cases": 48, "budget_s": 45, "minimums": {"corpus_runs": 100, "inverted_cut_runs_judged_against_their_own_detail": 100, "lines_checked": 6000, "nontrivial": 800, "new_year_offset_events": 200, "cli_runs": 5}},
    "thorough": {"cases": 60000, "cli_cases": 150, "budget_s": 300, "minimums": {"corpus_runs": 100, "lines_checked": 150000, "nontrivial": 18000, "new_year_offset_events": 4800, "cli_runs": 60}},
}
PROFILES = [
    Profile(gap_style="long", max_events=20, min_events=6, p_earn=0.4),
    Profile(gap_style="boundary", mixed_tz=True, max_events=18, min_events=6, tie_prob=0.2),
    Profile(gap_style="mixed", max_events=24, min_events=8, n_exchanges=2, n_holders=2),
    Profile(gap_style="medium", max_events=24, min_events=8, p_out=0.45, p_in=0.4, p_intra=0.15),
]


def _observe(ctx: Any, ip: Any, hist: Dict[str, Any], sched: Dict[int, str], windows: List[List[Optional[str]]]) -> None:
    from rpv.drive_inproc import trace_of, yearly_of

    model = Model(hist)
    base = ip.run(hist, sched)
    ctx.count("executions")
    ctx.count("valid_cases")
    if not base.ok:
        ctx.count("unobservable")
        ctx.tag("tag_unobservable", base.error[:80])
        return
    full = trace_of(base.computed)
    for event in model.events.values():
        if event.ts.year != event.utc.year:
            ctx.count("new_year_offset_events")
    for from_s, to_s in windows:
        from_d = date.fromisoformat(from_s) if from_s else None
        to_d = date.fromisoformat(to_s) if to_s else None
        if from_d and to_d and from_d > to_d:
            continue
        if from_d is None and to_d is None:
            res = base
        else:
            res = ip.run(hist, sched, from_date=from_d, to_date=to_d)
            ctx.count("executions")
            ctx.count("valid_cases")
        case = {"hist": hist, "schedule": sched_json(sched), "windows": [[from_s, to_s]]}
        if not res.ok:
            ctx.count("unobservable")
            ctx.tag("tag_unobservable", res.error[:80])
            continue
        up_to = [f for f in full if to_d is None or model.events[f.event].ts.date() <= to_d]
        if to_d is not None and not clean_cut(hist, to_d):
            # the cut falls between own dates whose order is the reverse of the instants' (which fractions such a cut keeps is
            # KF1 of C10): the lines must still be the sums over the fractions this very run lists up to the to-date
            if from_d is not None:
                continue
            up_to = trace_of(res.computed)
            ctx.count("inverted_cut_runs_judged_against_their_own_detail")
        yearly = yearly_of(res.computed)
        violations = check_yearly(model, up_to, yearly, from_year=from_d.year if from_d else None)
        ctx.count("lines_checked", len(yearly))
        ctx.tag("tag_window", f"from={'y' if from_d else 'n'},to={'y' if to_d else 'n'}")
        keys: Dict[Any, int] = {}
        for f in up_to:
            key = (model.events[f.event].ts.year, model.events[f.event].type, f.long)
            keys[key] = keys.get(key, 0) + 1
        if len(yearly) >= 2 and any(n >= 2 for n in keys.values()):
            ctx.distinct("nontrivial", case)
            ctx.sample({"n_rows": len(hist["rows"]), "window": [from_s, to_s], "lines": [[y[0], y[2], y[3], float(y[4]), float(y[5]), float(y[6]), float(y[7])] for y in yearly[:6]]})
        for v in violations:
            ctx.violation(v["rule"], v["detail"], case)


def _windows(rng: Any, hist: Dict[str, Any]) -> List[List[Optional[str]]]:
    result: List[List[Optional[str]]] = [[None, None]]
    days = [d for d in candidate_days(rng, hist, 6) if clean_cut(hist, d)]
    for d in days[:2]:
        result.append([None, d.isoformat()])
    if len(days) >= 4:
        a, b = sorted(days[2:4])
        result.append([a.isoformat(), b.isoformat()])
    if days:
        result.append([days[-1].isoformat(), None])
    return result


def run_shard(ctx: Any) -> None:
    from rpv.checks import corpus_slice

    corpus_slice.run(ctx, PROPERTY_ID)  # the repository's own example inputs, every method and the config's schedule
    ip = get_ip(ctx)
    settings = SETTINGS[ctx.tier]
    share = ctx.share(settings["cases"])
    index = ctx.shard
    done = 0
    while done < share and (ctx.budget_s - ctx.time_left()) < ctx.budget_s * 0.75:
        rng = ctx.rng("case", index)
        hist = history(rng, deepen(ctx, index, PROFILES[index % len(PROFILES)]))
        if is_valid(Model(hist)):
            years = own_years(hist)
            sched = {1970: rng.choice(METHODS)} if rng.random() < 0.7 else schedule(rng, years[0], years[-1])
            _observe(ctx, ip, hist, sched, _windows(rng, hist))
        else:
            ctx.count("generated_invalid")
        if index % 5 == 0:
            from datetime import timedelta

            from rpv import families

            hist, info = families.inverted_dates(rng, kinds=("OUT", "OUT", "OUT", "IN", "INTRA"), at_new_year=rng.random() < 0.7)
            if info["inverted_kinds"] and is_valid(Model(hist)):
                boundary = date.fromisoformat(info["boundary"])
                _observe(ctx, ip, hist, {1970: rng.choice(METHODS)}, [[None, (boundary + timedelta(days=k)).isoformat()] for k in (0, 1, -1)])
        index += ctx.nshards
        done += 1
    ctx.count("inputs", done)
    try:
        from rpv.checks import cli_slices
    except ImportError:
        return
    cli_slices.c06(ctx, settings["cli_cases"])


def replay(ctx: Any, case: Dict[str, Any]) -> None:
    if case.get("corpus"):
        from rpv.checks import corpus_slice

        corpus_slice.replay(ctx, PROPERTY_ID, case)
        return
    if case.get("cli"):
        from rpv.checks import cli_slices

        cli_slices.c06_replay(ctx, case)
        return
    _observe(ctx, get_ip(ctx), case["hist"], sched_from_json(case["schedule"]), case["windows"])


def coverage(merged: Dict[str, Any], tier: str) -> Dict[str, Any]:
    c = merged["counters"]
    return {
        "evaluations": c.get("executions", 0),
        "distinct_nontrivial": len(merged["sets"].get("nontrivial", ())),
        "events_checked": {"yearly_lines": c.get("lines_checked", 0), "events_whose_own_year_differs_from_utc_year": c.get("new_year_offset_events", 0), "cli_runs": c.get("cli_runs", 0)},
        "window_shapes_seen": sorted(merged["sets"].get("tag_window", ())),
    }
