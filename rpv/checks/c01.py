"""C01 - disposals consume lots in the order the accounting method prescribes.

Online trace checker over the fraction history of real compute_tax runs (and, CLI slice, over the Gain / Loss Detail
table of real rp2_<country> runs): for every non-income fraction no available lot may strictly outrank the chosen lot
under the primary criterion of the method in force for the event's own-timestamp year.
"""

from __future__ import annotations

from typing import Any, Dict, List, Tuple

from rpv import families
from rpv.gen import ASSETS, EXCHANGES, HOLDERS
from rpv.workload import matcher_cases as _cases
from rpv.model import Model
from rpv.oracle.balance import is_valid
from rpv.oracle.trace import OrderStats, check_order

PROPERTY_ID = "C01"
LEVEL = "exploration"
RULE = (
    "seeded generator of valid single-asset histories (general profiles + directed hostile families: income before "
    "disposals, better lot arriving between disposals, many tiny lots / disposals, same instant in another UTC "
    "offset, partial lot across a year boundary with a method change) x {fifo,lifo,hifo,lofo} x year->method "
    "schedules, run through the real compute_tax (and the CLI for a slice); a case is non-trivial when at least one "
    "fraction was emitted while >= 2 available lots of different rank existed; distinct = hash of (history, schedule). "
    "The repository's own example inputs (input/*.ods read independently of RP2's parser, every method and the config's schedule, -n) are part of the workload"
)
ASSUMPTIONS = [
    "single asset per history (the matcher is per asset; cross-asset interaction is C17)",
    "ties in the method's primary criterion may be broken in any order",
    "same-instant taxable events share one own-timestamp year whenever a schedule boundary falls there (KF5 region is probed separately)",
    "amounts have <= 11 decimals",
]

SETTINGS: Dict[str, Dict[str, Any]] = {
    "quick": {"cases": 2400, "cli_cases": 48, "budget_s": 50, "minimums": {"corpus_runs": 100, "decisions": 2000, "nontrivial": 500, "cli_fractions": 30}},
    "thorough": {"cases": 120000, "cli_cases": 320, "budget_s": 420, "minimums": {"corpus_runs": 100, "decisions": 60000, "nontrivial": 12000, "cli_fractions": 300}},
}

def _observe(ctx: Any, ip: Any, family: str, hist: Dict[str, Any], sched: Dict[int, str], lines: Any = None) -> None:
    from rpv.drive_inproc import fraction_of, trace_of

    model = Model(hist)
    if lines is not None:
        lines.begin_run()
    res = ip.run(hist, sched)
    if lines is not None:
        lines.end_run()
    ctx.count("executions")
    ctx.count("valid_cases")
    case = {"hist": hist, "schedule": {str(k): v for k, v in sched.items()}}
    if not res.ok:
        # whether a valid history may be rejected is C02's question; here the run is simply not observable
        ctx.count("unobservable")
        ctx.tag("tag_unobservable", res.error[:80])
        return
    trace = trace_of(res.computed)
    emitted = [fraction_of(g).key() for g in res.emitted]
    if emitted != [f.key() for f in trace]:
        ctx.violation("trace.final-set-differs-from-emitted", {"emitted": len(emitted), "final": len(trace)}, case)
    stats = OrderStats()
    violations = check_order(model, trace, sched, stats)
    ctx.count("fractions", stats.fractions)
    ctx.count("decisions", stats.decisions)
    ctx.maximum("max_candidates", stats.max_candidates)
    ctx.tag("tag_family", family)
    ctx.tag("tag_methods", "+".join(sorted(set(sched.values()))) if len(sched) > 1 else next(iter(sched.values())))
    if stats.decisions:
        ctx.distinct("nontrivial", case)
    for v in violations:
        ctx.violation(v["rule"], v["detail"], case, mechanism=v["detail"].get("mechanism", ""))
    if stats.decisions:
        ctx.sample({"family": family, "schedule": case["schedule"], "rows": hist["rows"][:6], "n_rows": len(hist["rows"]), "trace": [f.to_json() for f in trace[:6]]})


def run_shard(ctx: Any) -> None:
    from rpv.checks import corpus_slice

    corpus_slice.run(ctx, PROPERTY_ID)  # the repository's own example inputs, every method and the config's schedule
    from rpv.drive_inproc import InProc
    from rpv.monitors.inproc import LineMonitor

    ip = InProc(ctx.scratch, EXCHANGES, HOLDERS, ASSETS)
    import rp2.abstract_accounting_method as aam
    import rp2.accounting_engine as ae
    import rp2.tax_engine as te

    lines = LineMonitor(
        [
            te._create_unfiltered_gain_and_loss_set,
            te._get_next_taxable_event_and_acquired_lot,
            ae.AccountingEngine.get_next_taxable_event_and_amount,
            ae.AccountingEngine.get_acquired_lot_for_taxable_event,
            aam.AbstractChronologicalAccountingMethod.seek_non_exhausted_acquired_lot,
            aam.AbstractFeatureBasedAccountingMethod.seek_non_exhausted_acquired_lot,
            aam.FeatureBasedAcquiredLotCandidates.set_to_index,
        ]
    )
    lines.start()
    try:
        settings = SETTINGS[ctx.tier]
        total = settings["cases"]
        # in-process part gets ~75 % of the time box, the CLI slice the rest
        inproc_deadline = ctx.budget_s * 0.75
        index = ctx.shard
        done = 0
        share = ctx.share(total)
        while done < share and (ctx.budget_s - ctx.time_left()) < inproc_deadline:
            for family, hist, schedules in _cases(ctx, index):
                if not is_valid(Model(hist)):
                    ctx.count("generated_invalid")
                    continue
                for sched in schedules:
                    _observe(ctx, ip, family, hist, sched, lines)
            index += ctx.nshards
            done += 1
        ctx.count("inputs", done)
    finally:
        lines.stop()
    for name, line in sorted(lines.lines):
        ctx.tag("tag_lines", f"{name}:{line}")
    for digest in lines.sequences:
        ctx.tag("line_sequences", digest)

    if ctx.shard == 0:
        _probe_kf5(ctx, ip)
    _cli_slice(ctx)


def _probe_kf5(ctx: Any, ip: Any) -> None:
    from rpv.drive_inproc import trace_of

    hist, sched = families.kf5_reproducer()
    res = ip.run(hist, sched)
    reproduces = False
    if res.ok:
        violations = check_order(Model(hist), trace_of(res.computed), sched)
        reproduces = any(v["detail"].get("mechanism") == "KF5" for v in violations)
        for v in violations:
            if v["detail"].get("mechanism") != "KF5":
                ctx.violation(v["rule"], v["detail"], {"hist": hist, "schedule": {str(k): v_ for k, v_ in sched.items()}})
    ctx.known_finding("KF5", reproduces, "same-instant events across a method-schedule boundary keep the in-flight lot")


def _cli_slice(ctx: Any) -> None:
    """Second observation point: the Gain / Loss Detail table written by real CLI runs with -m and [accounting_methods]."""
    try:
        from rpv.checks import cli_slices
    except ImportError:
        return
    cli_slices.c01(ctx, SETTINGS[ctx.tier]["cli_cases"])


def replay(ctx: Any, case: Dict[str, Any]) -> None:
    if case.get("corpus"):
        from rpv.checks import corpus_slice

        corpus_slice.replay(ctx, PROPERTY_ID, case)
        return
    from rpv.drive_inproc import InProc

    if case.get("cli"):
        from rpv.checks import cli_slices

        cli_slices.c01_replay(ctx, case)
        return
    ip = InProc(ctx.scratch, EXCHANGES, HOLDERS, ASSETS)
    sched = {int(k): v for k, v in case["schedule"].items()}
    _observe(ctx, ip, "replay", case["hist"], sched)


def coverage(merged: Dict[str, Any], tier: str) -> Dict[str, Any]:
    counters = merged["counters"]
    return {
        "evaluations": counters.get("executions", 0),
        "distinct_nontrivial": len(merged["sets"].get("nontrivial", ())),
        "events_checked": {"fractions": counters.get("fractions", 0), "ranking_decisions": counters.get("decisions", 0), "cli_fractions": counters.get("cli_fractions", 0)},
        "anchored_lines_executed": len(merged["sets"].get("tag_lines", ())),
        "distinct_line_sequences_of_matching_loop": len(merged["sets"].get("line_sequences", ())),
    }
