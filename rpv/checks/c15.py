"""C15 - the open-positions report matches balances and the cost of unsold lot parts.

Read-back monitor over the 'Asset' and 'Asset - Exchange' sheets of open_positions.ods of real CLI runs, reconciled with
the balance model of the input and with the fraction trace decoded from the full report of the same run.
"""

from __future__ import annotations

import copy
import random
from datetime import date
from fractions import Fraction
from typing import Any, Dict, List, Optional, Tuple

from rpv.checks.c16 import shaped_input
from rpv.checks.inproc_util import candidate_days, clean_cut
from rpv.cli_core import cli_histories, cli_profile, decode_trace, generator_crash
from rpv.drive_cli import COUNTRY_LANGUAGES, COUNTRY_METHODS, Workspace
from rpv.model import Model
from rpv.oracle.reports import FullReport, num, open_positions, snap
from rpv.oracle.trace import consumed_per_lot

PROPERTY_ID = "C15"
LEVEL = "exploration"
RULE = (
    "generated valid multi-asset, multi-holder inputs (partially and fully sold assets, income-only assets, joint holders, "
    "several exchanges per holder) x country / language / method x {no to-date, to-date}, never a from-date; rows of both "
    "sheets vs every holder / (holder, exchange) with a positive final balance from the input's balance model; per asset "
    "sum of unrealized cost vs lots' cost-with-fee x (1 - consumed/amount) from the trace decoded from the same run's full "
    "report; realized (detail table) + unrealized = cost of everything acquired; per-unit cost; weights sum to 1. "
    "Every fourth case is a cross-report case: a to-date that cuts between transactions whose own-date order is the reverse "
    "of their instant order (which rows such a cut keeps is KF1 of C10); there the reports of the run are only reconciled with "
    "each other: unrealized cost + cost basis of the detail rows = cost of the lots listed in the In-Flow table, open-position "
    "balances = positive final balances of the Account Balances table, unit cost, weights. "
    "Non-trivial = >= 2 holder rows and a partially consumed lot; distinct = hash of the case"
)
ASSUMPTIONS = [
    "no overdrawn accounts and no from-date (as the quantifier says)",
    "an asset whose unsold parts are worth less than 1e-12 fiat may be listed or not (RP2 lists an asset when a lot's unrealized cost is > 0 at 13 decimals)",
    "numbers are compared at 1e-9 relative (cells are doubles, sums of doubles)",
]
SETTINGS: Dict[str, Dict[str, Any]] = {
    "quick": {"cases": 160, "budget_s": 60, "minimums": {"rows_checked": 600, "conservation_checks": 100, "nontrivial": 40, "cross_report_assets": 30}},
    "thorough": {"cases": 3000, "budget_s": 420, "minimums": {"rows_checked": 3000, "conservation_checks": 720, "nontrivial": 240, "cross_report_assets": 150}},
}
REL = Fraction(1, 10**9)


def _close(a: Any, b: Fraction, rel: Fraction = REL) -> bool:
    f = num(a)
    return f is not None and abs(f - b) <= rel * max(abs(f), abs(b)) + Fraction(1, 10**12)


def make_case(rng: random.Random, index: int) -> Dict[str, Any]:
    if index % 5 == 0:
        hists = shaped_input(rng, "fully-sold+income-only")
    else:
        hists = cli_histories(rng, rng.randint(1, 3), cli_profile(n_exchanges=rng.choice((2, 3)), n_holders=2, p_intra=0.3, max_events=rng.choice((8, 16)), min_events=4, price_style="small", mixed_tz=rng.random() < 0.35))
    if index % 10 == 3:
        # one asset's only funded account is emptied by a disposal with an understated exchange-supplied total: nothing of it is
        # open, part of a lot is unsold all the same; the other assets' figures (weights above all) must not notice
        from rpv import families

        hists = dict(hists)
        hists["CCC" if "CCC" not in hists else "DDD"] = families.understated_total_empties_account(rng, "CCC" if "CCC" not in hists else "DDD")
    country = rng.choice(("us", "us", "generic", "es", "ie", "jp"))
    language = rng.choice(COUNTRY_LANGUAGES[country])
    method = rng.choice(COUNTRY_METHODS[country])
    to_s = None
    if rng.random() < 0.4:
        days = sorted({d for h in hists.values() for d in candidate_days(rng, h, 5)})
        clean = [d for d in days if all(clean_cut(h, d) for h in hists.values())]
        if clean:
            to_s = rng.choice(clean).isoformat()
    return {"hists": hists, "country": country, "language": language, "method": method, "to": to_s}


def _all_valid(ctx: Any, case: Dict[str, Any]) -> bool:
    from rpv.oracle.balance import is_valid

    if all(is_valid(Model(h)) for h in case["hists"].values()):
        return True
    ctx.count("generated_invalid")
    return False


def _one(ctx: Any, case: Dict[str, Any], name: str) -> None:
    if not _all_valid(ctx, case):
        return
    ws = Workspace(ctx.scratch, name)
    try:
        hists = copy.deepcopy(case["hists"])
        ws.write(hists)
        args = ["-m", case["method"], "-g", case["language"]] + (["-t", case["to"]] if case.get("to") else [])
        res = ws.run(case["country"], args, audit=False)
        ctx.count("executions")
        ctx.count("valid_cases")
        if res.exit != 0:
            crash = generator_crash(res.stderr, "open_positions.py")
            if crash:
                ctx.violation("openpositions.generator-crashed", {"error": crash}, case)
                return
            # the input and the options are valid by construction and the report this property is about was not produced
            ctx.violation("openpositions.run-failed-on-valid-input", {"exit": res.exit, "error": res.stderr.strip().splitlines()[-1][:200] if res.stderr.strip() else ""}, case)
            return
        op_path, full_path = res.report("open_positions"), res.report("rp2_full_report")
        if not op_path or not full_path:
            ctx.violation("openpositions.file-missing", {"files": res.files}, case)
            return
        to_d = date.fromisoformat(case["to"]) if case.get("to") else None
        op = open_positions(op_path, case["language"])
        report = FullReport(full_path, case["language"])
        violations: List[Tuple[str, Dict[str, Any]]] = []
        expected_assets: List[str] = []
        optional_assets: List[str] = []
        total_unrealized = Fraction(0)
        per_asset: Dict[str, Dict[str, Any]] = {}
        for asset, hist in hists.items():
            model = Model(hist)
            trace, problems = decode_trace(report, asset, model)
            for p in problems:
                violations.append(("openpositions.full-report-undecodable", {"problem": p}))
            consumed = consumed_per_lot(trace)
            lots = [l for l in model.lots.values() if to_d is None or l.ts.date() <= to_d]
            unrealized = sum((l.fiat_in_with_fee * (1 - consumed.get(l.row, Fraction(0)) / l.amount) for l in lots), Fraction(0))
            acquired_cost = sum((l.fiat_in_with_fee for l in lots), Fraction(0))
            realized_shown = sum((num(d["cost"]) or Fraction(0) for d in report.detail_rows(asset)), Fraction(0))
            balances = model.balances(to_d)
            holders: Dict[str, Fraction] = {}
            accounts: Dict[Tuple[str, str], Fraction] = {}
            for (exchange, holder), b in balances.items():
                if b["final"] > 0:
                    holders[holder] = holders.get(holder, Fraction(0)) + b["final"]
                    accounts[(holder, exchange)] = b["final"]
            per_asset[asset] = {"unrealized": unrealized, "holders": holders, "accounts": accounts, "acquired": acquired_cost, "realized_shown": realized_shown, "partial": any(0 < consumed.get(l.row, 0) < l.amount for l in lots)}
            if unrealized > 0 and holders:
                if unrealized >= Fraction(1, 10**12):
                    expected_assets.append(asset)
                else:
                    optional_assets.append(asset)  # unsold dust worth less than RP2's resolution: listing is unspecified
        shown_assets = sorted({r["asset"] for r in op["asset"]})
        optional_listed = [a for a in optional_assets if a in shown_assets]
        expected_assets += optional_listed
        total_unrealized = sum((per_asset[a]["unrealized"] for a in expected_assets), Fraction(0))
        if shown_assets != sorted(expected_assets):
            violations.append(("openpositions.assets-listed", {"shown": shown_assets, "expected": sorted(expected_assets)}))
        if sorted(op["input"]) != sorted(expected_assets):
            violations.append(("openpositions.input-sheet-assets", {"shown": sorted(op["input"]), "expected": sorted(expected_assets)}))
        for asset in expected_assets:
            info = per_asset[asset]
            total_balance = sum(info["holders"].values(), Fraction(0))
            unit = info["unrealized"] / total_balance
            rows = [r for r in op["asset"] if r["asset"] == asset]
            if sorted(r["holder"] for r in rows) != sorted(info["holders"]):
                violations.append(("openpositions.holder-rows", {"asset": asset, "shown": sorted(r["holder"] for r in rows), "expected": sorted(info["holders"])}))
                continue
            for r in rows:
                ctx.count("rows_checked")
                balance = info["holders"][r["holder"]]
                if snap(r["balance"]) != balance:
                    violations.append(("openpositions.holder-balance", {"asset": asset, "holder": r["holder"], "shown": str(r["balance"]), "expected": str(balance)}))
                if not _close(r["unit_cost"], unit):
                    violations.append(("openpositions.unit-cost", {"asset": asset, "shown": str(r["unit_cost"]), "expected": float(unit)}))
                if not _close(r["cost"], balance * unit):
                    violations.append(("openpositions.holder-cost", {"asset": asset, "holder": r["holder"], "shown": str(r["cost"]), "expected": float(balance * unit)}))
                if not _close(r["weight"], balance * unit / total_unrealized):
                    violations.append(("openpositions.weight", {"asset": asset, "holder": r["holder"], "shown": str(r["weight"]), "expected": float(balance * unit / total_unrealized)}))
            shown_unrealized = sum((num(r["cost"]) or Fraction(0) for r in rows), Fraction(0))
            ctx.count("conservation_checks")
            if not _close(shown_unrealized, info["unrealized"]):
                violations.append(("openpositions.unrealized-vs-unconsumed-lots", {"asset": asset, "shown": float(shown_unrealized), "from_trace": float(info["unrealized"])}))
            if not _close(info["realized_shown"] + shown_unrealized, info["acquired"]):
                violations.append(("openpositions.realized-plus-unrealized-vs-acquired", {"asset": asset, "realized_in_detail_table": float(info["realized_shown"]), "unrealized": float(shown_unrealized), "acquired": float(info["acquired"])}))
            xrows = [r for r in op["asset_exchange"] if r["asset"] == asset]
            if sorted((r["holder"], r["exchange"]) for r in xrows) != sorted(info["accounts"]):
                violations.append(("openpositions.exchange-rows", {"asset": asset, "shown": sorted([r["holder"], r["exchange"]] for r in xrows), "expected": sorted(list(a) for a in info["accounts"])}))
                continue
            for r in xrows:
                ctx.count("rows_checked")
                balance = info["accounts"][(r["holder"], r["exchange"])]
                if snap(r["balance"]) != balance:
                    violations.append(("openpositions.exchange-balance", {"asset": asset, "account": [r["holder"], r["exchange"]], "shown": str(r["balance"]), "expected": str(balance)}))
                if not _close(r["cost"], balance * unit) or not _close(r["unit_cost"], unit):
                    violations.append(("openpositions.exchange-cost", {"asset": asset, "account": [r["holder"], r["exchange"]], "shown": str(r["cost"]), "expected": float(balance * unit)}))
        for sheet_rows, label in ((op["asset"], "Asset"), (op["asset_exchange"], "Asset - Exchange")):
            if sheet_rows:
                total_weight = sum((num(r["weight"]) or Fraction(0) for r in sheet_rows), Fraction(0))
                if abs(total_weight - 1) > REL:
                    violations.append(("openpositions.weights-do-not-sum-to-one", {"sheet": label, "sum": float(total_weight)}))
        ctx.tag("tag_country", case["country"])
        if len(op["asset"]) >= 2 and any(per_asset[a]["partial"] for a in expected_assets):
            ctx.distinct("nontrivial", case)
            ctx.sample({"country": case["country"], "language": case["language"], "method": case["method"], "to": case.get("to"), "asset_rows": [[r["asset"], r["holder"], r["balance"], r["cost"]] for r in op["asset"]][:6]})
        if len(expected_assets) < len(hists):
            ctx.count("cases_with_an_unlisted_asset")
        for rule, detail in violations[:6]:
            ctx.violation(rule, detail, case)
    finally:
        ws.cleanup()


def make_cross_case(rng: random.Random, index: int) -> Dict[str, Any]:
    """To-date cut between transactions whose own-date order is the reverse of their instant order (mixed UTC offsets around a
    day / year boundary). Which rows such a cut keeps is KF1's subject (C10); whatever view the run takes, its reports must
    agree with each other, and that is what this mode checks."""
    from rpv import families

    hists: Dict[str, Any] = {}
    boundary = None
    for n, asset in enumerate(("AAA", "BBB")[: rng.choice((1, 2))]):
        for _ in range(20):
            hist, info = families.inverted_dates(rng, asset, kinds=("OUT", "OUT", "OUT", "INTRA", "IN"), at_new_year=rng.random() < 0.6)
            if info["inverted_kinds"] and Model(hist).overspend_instant() is None:
                break
        hists[asset] = hist
        if boundary is None:
            boundary = info["boundary"]
    country = rng.choice(("us", "us", "generic", "ie"))
    to_d = date.fromisoformat(boundary)
    from datetime import timedelta

    return {"mode": "cross-report", "hists": hists, "country": country, "language": rng.choice(COUNTRY_LANGUAGES[country]), "method": rng.choice(COUNTRY_METHODS[country]), "to": (to_d + timedelta(days=rng.choice((0, 0, 0, 1, -1)))).isoformat()}


def _one_cross(ctx: Any, case: Dict[str, Any], name: str) -> None:
    """(invalid generated inputs are skipped) Report-to-report consistency of one run: unrealized cost (open positions) + realized cost (Gain / Loss Detail) = cost of
    the lots listed in the In-Flow table; balances of the open-positions sheets = positive final balances of the Account
    Balances table; unit cost = unrealized / balance; weights sum to 1."""
    if not _all_valid(ctx, case):
        return
    ws = Workspace(ctx.scratch, name)
    try:
        hists = copy.deepcopy(case["hists"])
        ws.write(hists)
        args = ["-m", case["method"], "-g", case["language"], "-t", case["to"]]
        res = ws.run(case["country"], args, audit=False)
        ctx.count("executions")
        ctx.count("valid_cases")
        if res.exit != 0:
            crash = generator_crash(res.stderr, "open_positions.py")
            if crash:
                ctx.violation("openpositions.generator-crashed", {"error": crash}, case)
                return
            # the input and the options are valid by construction and the report this property is about was not produced
            ctx.violation("openpositions.run-failed-on-valid-input", {"exit": res.exit, "error": res.stderr.strip().splitlines()[-1][:200] if res.stderr.strip() else ""}, case)
            return
        op_path, full_path = res.report("open_positions"), res.report("rp2_full_report")
        if not op_path or not full_path:
            ctx.violation("openpositions.file-missing", {"files": res.files}, case)
            return
        op = open_positions(op_path, case["language"])
        report = FullReport(full_path, case["language"])
        violations: List[Tuple[str, Dict[str, Any]]] = []
        for asset in hists:
            rows = [r for r in op["asset"] if r["asset"] == asset]
            acquired = sum((num(r["fin_wf"]) or Fraction(0) for r in report.in_rows(asset)), Fraction(0))
            realized = sum((num(d["cost"]) or Fraction(0) for d in report.detail_rows(asset)), Fraction(0))
            lines, _ = report.balances(asset)
            holders: Dict[str, Fraction] = {}
            accounts: Dict[Tuple[str, str], Fraction] = {}
            for line in lines:
                final = snap(line["final"]) or Fraction(0)
                if final > 0:
                    holders[line["ho"]] = holders.get(line["ho"], Fraction(0)) + final
                    accounts[(line["ho"], line["ex"])] = final
            if not rows:
                # not listed: nothing unsold (at RP2's resolution) or nobody holds a positive balance
                if holders and acquired - realized > Fraction(1, 10**9) * max(acquired, 1):
                    violations.append(("openpositions.cross.asset-with-unsold-cost-and-holders-not-listed", {"asset": asset, "acquired_in_flow_table": float(acquired), "realized_in_detail_table": float(realized)}))
                continue
            listed_lots = {str(r["uid"]) for r in report.in_rows(asset)}
            if any(d["lot_uid"] not in (None, "") and str(d["lot_uid"]) not in listed_lots for d in report.detail_rows(asset)):
                # the cut also separates a lot from a fraction taken from it (each table is cut on its own under KF1): the cost of
                # "everything acquired" is then not defined by the In-Flow table, the equation does not apply
                ctx.count("cross_report_assets_with_an_unlisted_lot")
                continue
            ctx.count("cross_report_assets")
            unrealized = sum((num(r["cost"]) or Fraction(0) for r in rows), Fraction(0))
            if not _close(realized + unrealized, acquired):
                violations.append(("openpositions.cross.realized-plus-unrealized-vs-in-flow-table", {"asset": asset, "realized_in_detail_table": float(realized), "unrealized": float(unrealized), "cost_of_lots_in_in_flow_table": float(acquired)}))
            if sorted(r["holder"] for r in rows) != sorted(holders):
                violations.append(("openpositions.cross.holder-rows-vs-balance-table", {"asset": asset, "shown": sorted(r["holder"] for r in rows), "balance_table": sorted(holders)}))
                continue
            total_balance = sum(holders.values(), Fraction(0))
            for r in rows:
                ctx.count("rows_checked")
                if snap(r["balance"]) != holders[r["holder"]]:
                    violations.append(("openpositions.cross.holder-balance-vs-balance-table", {"asset": asset, "holder": r["holder"], "shown": str(r["balance"]), "balance_table": str(holders[r["holder"]])}))
                if not _close(r["unit_cost"], unrealized / total_balance):
                    violations.append(("openpositions.cross.unit-cost", {"asset": asset, "shown": str(r["unit_cost"]), "expected": float(unrealized / total_balance)}))
            xrows = [r for r in op["asset_exchange"] if r["asset"] == asset]
            if sorted((r["holder"], r["exchange"]) for r in xrows) != sorted(accounts):
                violations.append(("openpositions.cross.exchange-rows-vs-balance-table", {"asset": asset, "shown": sorted([r["holder"], r["exchange"]] for r in xrows), "balance_table": sorted(list(a) for a in accounts)}))
            else:
                for r in xrows:
                    ctx.count("rows_checked")
                    if snap(r["balance"]) != accounts[(r["holder"], r["exchange"])]:
                        violations.append(("openpositions.cross.exchange-balance-vs-balance-table", {"asset": asset, "account": [r["holder"], r["exchange"]], "shown": str(r["balance"])}))
        for sheet_rows, label in ((op["asset"], "Asset"), (op["asset_exchange"], "Asset - Exchange")):
            if sheet_rows:
                total_weight = sum((num(r["weight"]) or Fraction(0) for r in sheet_rows), Fraction(0))
                if abs(total_weight - 1) > REL:
                    violations.append(("openpositions.weights-do-not-sum-to-one", {"sheet": label, "sum": float(total_weight)}))
        ctx.count("cross_report_runs")
        ctx.tag("tag_country", case["country"])
        for rule, detail in violations[:6]:
            ctx.violation(rule, detail, case)
    finally:
        ws.cleanup()


def run_shard(ctx: Any) -> None:
    settings = SETTINGS[ctx.tier]
    share = ctx.share(settings["cases"])
    for i in range(share):
        if ctx.expired():
            break
        index = ctx.shard + i * ctx.nshards
        if index % 4 == 3:
            _one_cross(ctx, make_cross_case(ctx.rng("cross", index), index), f"c15-{index}")
        else:
            _one(ctx, make_case(ctx.rng("case", index), index), f"c15-{index}")


def replay(ctx: Any, case: Dict[str, Any]) -> None:
    if case.get("mode") == "cross-report":
        _one_cross(ctx, case, "replay")
        return
    _one(ctx, case, "replay")


def coverage(merged: Dict[str, Any], tier: str) -> Dict[str, Any]:
    c = merged["counters"]
    return {
        "evaluations": c.get("executions", 0),
        "distinct_nontrivial": len(merged["sets"].get("nontrivial", ())),
        "events_checked": {"rows": c.get("rows_checked", 0), "per_asset_conservation_checks": c.get("conservation_checks", 0), "cross_report_runs_with_inverted_to_date_cut": c.get("cross_report_runs", 0), "cross_report_assets_reconciled": c.get("cross_report_assets", 0), "cases_with_a_fully_sold_or_unlisted_asset": c.get("cases_with_an_unlisted_asset", 0)},
        "countries_seen": sorted(merged["sets"].get("tag_country", ())),
    }
