"""C19 - hyperlinks in the full report lead to the row of the same transaction.

Read-back monitor over the formula text of every cell of '<asset> Tax' and 'Summary' of rp2_full_report.ods written by
real CLI runs, and over the content of the rows the links point to.
"""

from __future__ import annotations

import random
from datetime import timedelta
from typing import Any, Dict

from rpv import families
from rpv.checks.fullreport_common import corpus_case, make_case, run_case
from rpv.expected import Expected

PROPERTY_ID = "C19"
LEVEL = "exploration"
RULE = (
    "generated valid inputs of 2-3 assets whose sheets reuse the same row numbers with different shapes, rows not "
    "time-sorted, crypto fees on acquisitions (artificial fee rows), events around New Year in far-apart UTC offsets (own "
    "years not monotone in the detail table), tables starting ~2000 rows down the sheet (transaction ids equal to the tax years of the "
    "asset), a disposal taking less than 5e-14 of a huge lot (sold percentage displays as nothing), x windows that hide lots / events of the second and "
    "third asset while the first shows a transaction with the same row id; each HYPERLINK formula of the detail table is "
    "parsed and its target row of '<asset> In-Out' must hold that very transaction (unique id, timestamp, type, matching "
    "table), hidden transactions must carry no link, each Summary line must link to the first detail row of that year of "
    "that asset (no link when the window hides all rows of the year). Non-trivial = report where a window hides >= 1 "
    "transaction referenced by a visible fraction; distinct = hash of the case"
)
ASSUMPTIONS = [
    "unique ids identify transactions (an artificial fee row shares the id of its acquisition and is told apart by its table)",
    "links are checked on their formula text; no spreadsheet engine evaluates them",
]
SETTINGS: Dict[str, Dict[str, Any]] = {
    "quick": {"cases": 160, "budget_s": 60, "minimums": {"links_checked": 8000, "hidden_plain_cells": 60, "summary_links": 400, "nontrivial": 30, "reports_written_second_in_one_interpreter": 15}, "required_tags": {"tag_family": ["colliding-row-ids", "own-year-order-inversion", "sheet-rows-equal-to-tax-years", "dust-taken-from-a-huge-lot", "general"]}},
    "thorough": {"cases": 3600, "budget_s": 420, "minimums": {"links_checked": 48000, "hidden_plain_cells": 360, "summary_links": 3000, "nontrivial": 180, "reports_written_second_in_one_interpreter": 180}, "required_tags": {"tag_family": ["colliding-row-ids", "own-year-order-inversion", "sheet-rows-equal-to-tax-years", "dust-taken-from-a-huge-lot", "general"]}},
}


def colliding_case(rng: random.Random) -> Dict[str, Any]:
    """FX4 trigger: asset 1 shows a transaction in the window at sheet row r; asset 2 has a *lot* at the same sheet row r
    that the window hides, consumed by a disposal inside the window."""
    year = rng.randint(2017, 2021)
    a = families.HB(asset="AAA")
    b = families.HB(asset="BBB")
    # same number of IN rows so that row numbers collide across the two sheets
    n = rng.randint(2, 4)
    for k in range(n):
        a.acquire(families.T(year, 6 + k, 1 + k), rng.choice((1, 2)), 100 + k, ttype=rng.choice(("BUY", "INTEREST")))
        b.acquire(families.T(year - 1, 2 + k, 3 + k), rng.choice((1, 2)), 50 + k)
    a.dispose(families.T(year, 11, 5), "0.5", 200)
    b.dispose(families.T(year, 10, 5), rng.choice(("0.5", "1.5", "2.5")), 90)
    if rng.random() < 0.5:
        b.dispose(families.T(year, 12, 5), "0.25", 95, ttype="GIFT")
    hists = {"AAA": a.done(rng, shuffle=rng.random() < 0.5), "BBB": b.done(rng, shuffle=rng.random() < 0.5)}
    if rng.random() < 0.3:
        # a liquidity-pool token and a look-alike: names that differ only in a character spreadsheet programs do not allow in sheet names
        from rpv.cli_core import rename_asset

        hists = rename_asset(rename_asset(hists, "AAA", "ETH/DAI"), "BBB", "ETH_DAI")
    return {
        "hists": hists,
        "country": "us",
        "language": "en",
        "args": ["-m", rng.choice(("fifo", "lifo", "hifo", "lofo")), "-g", "en"],
        "ini_methods": {},
        "schedule": {},
        "from": f"{year}-0{rng.randint(1, 5)}-01",
        "to": None if rng.random() < 0.5 else f"{year}-12-31",
    }


def year_inversion_case(rng: random.Random) -> Dict[str, Any]:
    """Taxable events within a day of New Year written in far-apart UTC offsets: in instant order their own-timestamp
    years are not monotone (2020, 2019, 2020), so a year has more than one block of rows in the detail table."""
    year = rng.randint(2017, 2021)
    hists = {}
    # variants: the year has earlier rows / is sparse (its first gain/loss row comes after a row of the next year) / its earlier
    # rows are hidden by a from-date on its last day
    variant = rng.choice(("earlier-rows", "sparse-year", "from-date-hides-earlier-rows"))
    for asset in ("AAA", "BBB")[: rng.randint(1, 2)]:
        b = families.HB(asset=asset)
        b.acquire(families.T(year - 1, rng.randint(1, 11), rng.randint(1, 28)), 10, 100)
        if variant != "sparse-year":
            b.acquire(families.T(year, 3, 1), 5, 150, ttype="INTEREST")
            b.dispose(families.T(year, 6, 1), 1, 180)
        b.dispose(families.T(year, 12, 31, 22, rng.randint(0, 59)), 1, 200, offset=840)  # own year: year + 1
        b.dispose(families.T(year, 12, 31, 23, rng.randint(0, 59)), 1, 210, offset=rng.choice((-720, -480, 0)), ttype="GIFT")  # own year: year
        b.dispose(families.T(year + 1, 1, 1, rng.randint(0, 9), 0), 1, 220, offset=rng.choice((0, 330, 540)))  # own year: year + 1
        if rng.random() < 0.5:
            b.dispose(families.T(year + 1, 5, 1), 1, 230)
        hists[asset] = b.done(rng, shuffle=rng.random() < 0.5)
    return {"hists": hists, "country": "us", "language": "en", "args": ["-m", rng.choice(("fifo", "lifo", "hifo", "lofo")), "-g", "en"], "ini_methods": {}, "schedule": {}, "from": f"{year}-12-31" if variant == "from-date-hides-earlier-rows" else None, "to": None, "variant": variant}


def row_equals_year_case(rng: random.Random) -> Dict[str, Any]:
    """The tables start about 2000 rows down the sheet, so that transactions sit on sheet rows (= RP2's transaction ids) equal to
    the calendar years in which the asset has taxable events; those transactions are referenced by later fractions."""
    from rpv import ods_io

    year = rng.randint(2016, 2021)
    hists = {}
    for asset in ("AAA", "BBB")[: rng.randint(1, 2)]:
        b = families.HB(asset=asset)
        for k in range(4):
            b.acquire(families.T(year - 1, 2 + 2 * k, 5), 3, 100 + 10 * k, ttype=rng.choice(("BUY", "BUY", "INTEREST")))
        for k in range(3):
            b.dispose(families.T(year + k, rng.randint(2, 11), 9), 2, 300 + k, ttype=rng.choice(("SELL", "GIFT")))
        b.dispose(families.T(year + 2, 12, 1), 1, 320)
        hists[asset] = b.done(rng, shuffle=rng.random() < 0.5)
    layout = ods_io.default_layout()
    # header rows: keyword + header line, then the four acquisitions on rows lead + 3 .. lead + 6
    layout["leading_blank_rows"] = year - rng.randint(2, 5)
    return {"hists": hists, "country": "us", "language": "en", "args": ["-m", rng.choice(("fifo", "lifo", "hifo", "lofo")), "-g", "en"], "ini_methods": {}, "schedule": {}, "from": None if rng.random() < 0.6 else f"{year}-01-01", "to": None, "layout": layout}


def dust_from_a_huge_lot_case(rng: random.Random) -> Dict[str, Any]:
    """A disposal that uses up a small lot and takes 1e-11 .. 1e-8 from a huge one (less than 5e-14 of it): the huge lot's sold
    percentage displays as nothing, but it is an acquired lot of a visible fraction all the same."""
    from decimal import Decimal

    hists = {}
    year = rng.randint(2016, 2021)
    for asset in ("AAA", "BBB")[: rng.randint(1, 2)]:
        b = families.HB(asset=asset)
        small = Decimal(rng.choice(("1", "0.5", "2.25")))
        dust = Decimal(rng.choice(("0.00000001", "0.00000000001", "0.000000003")))
        b.acquire(families.T(year, 1, 5), small, 100)
        b.acquire(families.T(year, 2, 5), rng.choice((500000, 2000000, 90000000)), rng.choice(("0.01", "0.0002")))
        b.acquire(families.T(year, 3, 5), 1, 120, ttype="INTEREST")
        b.dispose(families.T(year, 6, 1), small + dust, 130)
        if rng.random() < 0.5:
            b.dispose(families.T(year + 1, 6, 1), dust, 140, ttype="GIFT")
        hists[asset] = b.done(rng, shuffle=rng.random() < 0.5)
    return {"hists": hists, "country": "us", "language": "en", "args": ["-m", "fifo", "-g", "en"], "ini_methods": {}, "schedule": {}, "from": None, "to": None}


def _one(ctx: Any, expected: Expected, case: Dict[str, Any], name: str, family: str) -> None:
    if "warm" not in case and family != "replay":
        import zlib

        case = dict(case, warm=zlib.crc32(name.encode()) % 4 == 0)
    outcome = run_case(ctx, expected, case, name, "links")
    ctx.count("valid_cases")
    if outcome is None:
        return
    stats, violations = outcome
    ctx.count("links_checked", stats.links)
    ctx.count("hidden_plain_cells", stats.plain_hidden)
    ctx.count("summary_links", stats.summary_links)
    ctx.count("summary_lines_without_link", stats.summary_plain)
    ctx.tag("tag_family", family)
    if stats.plain_hidden:
        ctx.distinct("nontrivial", case)
        ctx.sample({"family": family, "assets": sorted(case["hists"]), "window": [case.get("from"), case.get("to")], "links_checked": stats.links, "hidden_transactions_shown_plain": stats.plain_hidden})
    for v in violations[:6]:
        ctx.violation(v["rule"], v["detail"], case)


def run_shard(ctx: Any) -> None:
    expected = Expected(ctx.scratch)
    settings = SETTINGS[ctx.tier]
    share = ctx.share(settings["cases"])
    for i in range(share):
        if ctx.expired():
            break
        index = ctx.shard + i * ctx.nshards
        rng = ctx.rng("case", index)
        if index % 3 == 0:
            _one(ctx, expected, colliding_case(rng), f"c19-{index}", "colliding-row-ids")
        elif index % 8 == 1:
            _one(ctx, expected, year_inversion_case(rng), f"c19-{index}", "own-year-order-inversion")
        elif index % 8 == 4:
            _one(ctx, expected, row_equals_year_case(rng), f"c19-{index}", "sheet-rows-equal-to-tax-years")
        elif index % 8 == 5:
            _one(ctx, expected, dust_from_a_huge_lot_case(rng), f"c19-{index}", "dust-taken-from-a-huge-lot")
        elif index % 8 == 2 and corpus_case(rng, index // 8) is not None:
            _one(ctx, expected, corpus_case(ctx.rng("corpus", index), index // 8), f"c19-{index}", "shipped-example-input")
        else:
            _one(ctx, expected, make_case(rng), f"c19-{index}", "general")


def replay(ctx: Any, case: Dict[str, Any]) -> None:
    _one(ctx, Expected(ctx.scratch), case, "replay", "replay")


def coverage(merged: Dict[str, Any], tier: str) -> Dict[str, Any]:
    c = merged["counters"]
    return {
        "evaluations": c.get("executions", 0),
        "distinct_nontrivial": len(merged["sets"].get("nontrivial", ())),
        "events_checked": {
            "transaction_links_followed": c.get("links_checked", 0),
            "hidden_transactions_shown_without_link": c.get("hidden_plain_cells", 0),
            "summary_links_followed": c.get("summary_links", 0),
            "summary_lines_without_link": c.get("summary_lines_without_link", 0),
        },
    }
