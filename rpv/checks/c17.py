"""C17 - results depend only on the input: deterministic, order- and asset-independent.

Relational monitors over tuples of real runs; what is compared is the semantic content of every report (per sheet the
matrix of cell values and formula texts) and, in-process, the normalised fraction trace.
"""

from __future__ import annotations

import copy
import os
import random
from typing import Any, Dict, List, Optional, Tuple

from rpv import ods_io
from rpv.checks.cli_slices import _matrices
from rpv.checks.inproc_util import get_ip
from rpv.cli_core import cli_histories, cli_profile
from rpv.drive_cli import COUNTRY_REPORTS, Workspace
from rpv.gen import METHODS
from rpv.model import Model
from rpv.oracle.reports import tax_report_rows

PROPERTY_ID = "C17"
LEVEL = "exploration"
RULE = (
    "generated valid inputs of 2-3 assets that share exchanges, holders and sheet row numbers, all timestamps distinct; "
    "relations: (1) same files run with PYTHONHASHSEED 0 / 1 / random give identical reports; (2) an output directory "
    "pre-filled with the reports of a different input under the same names (in half of the cases edited since: numbers typed over prompts and texts) plus junk files gives the same reports and leaves "
    "the junk untouched; (3) rows permuted within tables, tables permuted within a sheet, sheets permuted give identical "
    "reports; (4) asset X alone (-a X, or a config listing only X) gives the same X sheets, the same X rows in shared sheets "
    "and the same X balances / costs as X among others; in-process: one engine object reused for the assets in different "
    "orders gives each asset the trace of a fresh engine; (5) two runs in one interpreter (another input first, then this one) give "
    "the second run the reports of a fresh process; (6) relation 4 for tax_report_jp.ods (year sheets of X alone vs among others); in-process relation 3 at volume: row numbers permuted within the "
    "tables of single-asset histories whose timestamps are distinct but down to 1 microsecond apart (all methods, schedules) "
    "give the same fractions through the unique ids. Non-trivial = input with >= 2 assets whose sheets reuse row numbers; "
    "distinct = hash of (input, relation)"
)
ASSUMPTIONS = [
    "all timestamps of an asset are distinct instants (the statement's proviso for reordering)",
    "cost-basis weights of the open-positions report legitimately depend on the other assets and are excluded from relation 4",
    "reports are compared on cell values and formula text as read back by ezodf, not on bytes (ODS files embed nothing time-dependent that RP2 controls, but zip metadata may differ)",
]
SETTINGS: Dict[str, Dict[str, Any]] = {
    "quick": {"cases": 16, "inproc_cases": 300, "inproc_perm_cases": 1600, "budget_s": 75, "minimums": {"relation_1": 12, "relation_2": 12, "relation_2_with_edited_earlier_reports": 3, "relation_3": 12, "relation_4": 12, "relation_5": 12, "relation_6": 12, "inproc_engine_reuse": 200, "inproc_row_permutation": 1000, "inproc_row_permutation_with_sub_second_lots": 200, "nontrivial": 12}},
    "thorough": {"cases": 200, "inproc_cases": 8000, "inproc_perm_cases": 60000, "budget_s": 600, "minimums": {"relation_1": 60, "relation_2": 60, "relation_2_with_edited_earlier_reports": 18, "relation_3": 60, "relation_4": 60, "relation_5": 60, "relation_6": 60, "inproc_engine_reuse": 3000, "inproc_row_permutation": 18000, "inproc_row_permutation_with_sub_second_lots": 3600, "nontrivial": 60}},
}
REPORTS = COUNTRY_REPORTS["us"]


def _content(res: Any) -> Dict[str, Dict[str, List[List[Any]]]]:
    return {name: _matrices(res.report(name)) for name in REPORTS if res.report(name)}


def _first_difference(a: Dict[str, Any], b: Dict[str, Any]) -> Dict[str, Any]:
    for report in sorted(set(a) | set(b)):
        if report not in a or report not in b:
            return {"report": report, "problem": "missing in one run"}
        for sheet in list(a[report]) + [s for s in b[report] if s not in a[report]]:
            ra, rb = a[report].get(sheet), b[report].get(sheet)
            if ra != rb:
                if ra is None or rb is None:
                    return {"report": report, "sheet": sheet, "problem": "sheet missing in one run"}
                i = next((k for k, (x, y) in enumerate(zip(ra, rb)) if x != y), min(len(ra), len(rb)))
                return {"report": report, "sheet": sheet, "row": i + 1, "first": str(ra[i : i + 1])[:240], "second": str(rb[i : i + 1])[:240]}
        if list(a[report]) != list(b[report]):
            return {"report": report, "problem": "sheet order differs", "first": list(a[report]), "second": list(b[report])}
    return {}


def shuffled(hists: Dict[str, Dict[str, Any]], rng: random.Random) -> Dict[str, Dict[str, Any]]:
    """Same rows, other sheet positions: the writer orders rows of a table by their current "row" field."""
    out = copy.deepcopy(hists)
    for hist in out.values():
        for table in ("IN", "OUT", "INTRA"):
            rows = [r for r in hist["rows"] if r["t"] == table]
            numbers = [r["row"] for r in rows]
            rng.shuffle(numbers)
            for r, n in zip(rows, numbers):
                r["row"] = n
    return out


def make_case(rng: random.Random) -> Dict[str, Any]:
    profile = cli_profile(tie_prob=0.0, max_events=rng.choice((8, 14)), min_events=5, n_exchanges=2, n_holders=2, p_earn=0.4, price_style=rng.choice(("equal", "small")))
    hists = cli_histories(rng, rng.choice((2, 3)), profile)
    if rng.random() < 0.35:
        # acquisitions with a crypto fee less than a second apart (the parser re-creates such rows: their instants must survive)
        from rpv import families

        victim = sorted(hists)[-1]
        hists[victim] = families.same_second_fee_lots(rng, victim)
    if rng.random() < 0.3:
        # two assets whose names differ in letter case only (WBTC / wBTC): different assets, each with its own sheet
        from rpv.cli_core import rename_asset

        hists = rename_asset(hists, sorted(hists)[1], sorted(hists)[0].lower())
    other = cli_histories(rng, 2, profile)
    return {"hists": hists, "other": other, "method": rng.choice(METHODS), "perm_seed": rng.randint(0, 10**9)}


def _scribble(directory: str, rng: random.Random) -> None:
    """Edit every report in the directory the way a user filling it in would: text cells (prompts such as 'Enter asset value',
    notes) overwritten with numbers, some numbers changed. Formulas are left alone."""
    import ezodf

    for fname in sorted(os.listdir(directory)):
        if not fname.endswith(".ods"):
            continue
        path = os.path.join(directory, fname)
        doc = ezodf.opendoc(path)
        for sheet in doc.sheets:
            for r in range(sheet.nrows()):
                for c in range(sheet.ncols()):
                    cell = sheet[r, c]
                    if cell.formula or cell.value is None:
                        continue
                    if isinstance(cell.value, str) and (cell.value.startswith("Enter") or rng.random() < 0.2):
                        cell.set_value(12345.5 + rng.randint(0, 9))
                    elif isinstance(cell.value, (int, float)) and not isinstance(cell.value, bool) and rng.random() < 0.2:
                        cell.set_value(float(cell.value) * 2 + 1)
        doc.save()


def _one(ctx: Any, case: Dict[str, Any], name: str, relations: Tuple[int, ...] = (1, 2, 3, 4, 5, 6)) -> None:
    ws = Workspace(ctx.scratch, name)
    try:
        hists = copy.deepcopy(case["hists"])
        ws.write(hists)
        args = ["-m", case["method"]]
        base = ws.run("us", args, audit=False, hashseed="0")
        ctx.count("executions")
        ctx.count("valid_cases")
        if base.exit != 0:
            ctx.count("unobservable")
            ctx.tag("tag_unobservable", f"cli exit {base.exit}: {base.stderr.strip().splitlines()[-1][:140] if base.stderr.strip() else ''}")
            return
        reference = _content(base)
        row_sets = [sorted(r["row"] for r in h["rows"]) for h in hists.values()]
        if len(hists) >= 2 and any(set(a) & set(b) for i, a in enumerate(row_sets) for b in row_sets[i + 1 :]):
            ctx.distinct("nontrivial", case)
            ctx.sample({"assets": sorted(hists), "method": case["method"], "rows_per_asset": [len(x) for x in row_sets], "sheets_compared": {k: list(v) for k, v in reference.items()}})

        if 1 in relations:
            for seed in ("1", "random"):
                other = ws.run("us", args, audit=False, hashseed=seed)
                ctx.count("executions")
                diff = _first_difference(reference, _content(other)) if other.exit == 0 else {"problem": f"exit {other.exit}"}
                if diff:
                    ctx.violation("determinism.hash-seed-changes-report", dict(diff, hashseed=seed), dict(case, relation=1))
            # the same with the run restricted to one asset (-a), for each asset in turn
            for asset in sorted(hists):
                alone = [ws.run("us", args + ["-a", asset], audit=False, hashseed=seed) for seed in ("0", "1", "2")]
                ctx.count("executions", 3)
                contents = [_content(r) if r.exit == 0 else {"problem": f"exit {r.exit}"} for r in alone]
                for seed, content in zip(("1", "2"), contents[1:]):
                    diff = _first_difference(contents[0], content) if "problem" not in content and "problem" not in contents[0] else ({"problem": "a run restricted with -a fails"} if content != contents[0] else None)
                    if diff:
                        ctx.violation("determinism.hash-seed-changes-report", dict(diff, hashseed=seed, only_asset=asset), dict(case, relation=1))
                        break
            ctx.count("relation_1")

        if 2 in relations:
            # reports of a different input under the same names + junk files already in the output directory
            ws_other = Workspace(ctx.scratch, name + "-other")
            try:
                ws_other.write(copy.deepcopy(case["other"]))
                out = ws.new_out()
                pre = ws_other.run("us", args, out_dir=out, audit=False)
                if pre.exit == 0 and case.get("perm_seed", 0) % 2 == 0:
                    # ... which the user has since worked in: numbers typed over prompts and texts, figures changed
                    _scribble(out, random.Random(case.get("perm_seed", 0)))
                    ctx.count("relation_2_with_edited_earlier_reports")
                junk = {"notes.txt": b"keep me\n", "fifo_rp2_full_report.ods.bak": b"\x00\x01junk", "zz.ods": b"not a spreadsheet"}
                # lock files an office suite leaves next to documents that are (or were, when it crashed) open
                for report_name in REPORTS:
                    junk[f".~lock.{case['method']}_{report_name}.ods#"] = b",user,host,01.10.2026 10:00,file:///home/user/.config/libreoffice/4;"
                for fname, data in junk.items():
                    with open(os.path.join(out, fname), "wb") as handle:
                        handle.write(data)
                again = ws.run("us", args, out_dir=out, audit=False)
                ctx.count("executions", 2)
                if pre.exit == 0:
                    diff = _first_difference(reference, _content(again)) if again.exit == 0 else {"problem": f"exit {again.exit}: {again.stderr[-200:]}"}
                    if diff:
                        ctx.violation("determinism.prefilled-output-directory-changes-report", diff, dict(case, relation=2))
                    for fname, data in junk.items():
                        path = os.path.join(out, fname)
                        if not os.path.exists(path) or open(path, "rb").read() != data:
                            ctx.violation("determinism.unrelated-file-in-output-directory-touched", {"file": fname}, dict(case, relation=2))
                    ctx.count("relation_2")
            finally:
                ws_other.cleanup()

        if 3 in relations:
            rng = random.Random(case["perm_seed"])
            ws_p = Workspace(ctx.scratch, name + "-perm")
            try:
                permuted = shuffled(case["hists"], rng)
                layout = ods_io.default_layout()
                layout["table_order"] = rng.sample(["IN", "OUT", "INTRA"], 3)
                layout["blank_rows"] = rng.randint(0, 3)
                ws_p.write(permuted, layout=layout, rng=rng, sheet_order=rng.sample(sorted(permuted), len(permuted)))
                other = ws_p.run("us", args, audit=False)
                ctx.count("executions")
                diff = _first_difference(reference, _content(other)) if other.exit == 0 else {"problem": f"exit {other.exit}: {other.stderr[-200:]}"}
                if diff:
                    ctx.violation("determinism.row-table-or-sheet-order-changes-report", dict(diff, table_order=layout["table_order"]), dict(case, relation=3))
                ctx.count("relation_3")
            finally:
                ws_p.cleanup()

        if 5 in relations:
            # two runs in ONE interpreter (an embedding program, a test driver): first the other input, then this one, into fresh
            # output directories; the second run must report what a fresh process reports (state kept in class attributes of
            # the generators or in module-level objects between the runs would show here)
            ws_other = Workspace(ctx.scratch, name + "-other5")
            try:
                ws_other.write(copy.deepcopy(case["other"]))
                out_first, out_second = ws.new_out(), ws.new_out()
                code = (
                    "import sys\n"
                    "from rp2.plugin.country.us import rp2_entry\n"
                    "status = []\n"
                    "for argv in (%r, %r):\n"
                    "    sys.argv = ['rp2_us'] + argv\n"
                    "    try:\n"
                    "        rp2_entry()\n"
                    "        status.append(0)\n"
                    "    except SystemExit as exc:\n"
                    "        status.append(exc.code or 0)\n"
                    "print('STATUS', status)\n"
                ) % (args + ["-o", out_first, ws_other.ini, ws_other.ods], args + ["-o", out_second, ws.ini, ws.ods])
                import subprocess as _subprocess

                from rpv.common import PYTHON, rp2_src

                env = dict(os.environ, PYTHONPATH=rp2_src(), PYTHONDONTWRITEBYTECODE="1", PYTHONHASHSEED="0")
                proc = _subprocess.run([PYTHON, "-c", code], cwd=ws.root, env=env, capture_output=True, text=True, timeout=600)
                ctx.count("executions", 2)
                if "STATUS [0, 0]" in proc.stdout:
                    second: Dict[str, Any] = {}
                    for report_name in REPORTS:
                        path = os.path.join(out_second, f"{case['method']}_{report_name}.ods")
                        if os.path.exists(path):
                            second[report_name] = _matrices(path)
                    diff = _first_difference(reference, second)
                    if diff:
                        ctx.violation("determinism.second-run-in-one-interpreter-differs-from-a-fresh-process", diff, dict(case, relation=5))
                    ctx.count("relation_5")
                else:
                    ctx.tag("tag_relation5_unobservable", (proc.stdout[-80:] + proc.stderr[-120:]).strip())
            finally:
                ws_other.cleanup()

        if 6 in relations:
            # relation 4 for the other country-specific generator: each asset's year sheets of tax_report_jp.ods (rows and
            # cross-sheet formulas) are the same whether the asset is processed alone (-a X) or among the others
            jp_args = ["-g", "en"]
            together = ws.run("jp", jp_args, audit=False)
            ctx.count("executions")
            if together.exit == 0 and together.report("tax_report_jp"):
                sheets_together = _matrices(together.report("tax_report_jp"))
                for asset in sorted(hists):
                    alone = ws.run("jp", jp_args + ["-a", asset], audit=False)
                    ctx.count("executions")
                    if alone.exit != 0 or not alone.report("tax_report_jp"):
                        ctx.violation("determinism.asset-alone-fails", {"asset": asset, "country": "jp", "stderr": alone.stderr[-200:]}, dict(case, relation=6))
                        continue
                    sheets_alone = _matrices(alone.report("tax_report_jp"))
                    mine = {n: m for n, m in sheets_together.items() if n.startswith(asset + "_")}
                    mine_alone = {n: m for n, m in sheets_alone.items() if n.startswith(asset + "_")}
                    if mine != mine_alone:
                        name = next((n for n in sorted(set(mine) | set(mine_alone)) if mine.get(n) != mine_alone.get(n)), "")
                        a_rows, b_rows = mine_alone.get(name) or [], mine.get(name) or []
                        i = next((k for k, (x, y) in enumerate(zip(a_rows, b_rows)) if x != y), min(len(a_rows), len(b_rows)))
                        ctx.violation("determinism.jp-asset-sheets-depend-on-other-assets", {"asset": asset, "sheet": name, "row": i + 1, "alone": str(a_rows[i : i + 1])[:240], "together": str(b_rows[i : i + 1])[:240]}, dict(case, relation=6))
                ctx.count("relation_6")
            else:
                ctx.tag("tag_relation6_unobservable", together.stderr[-120:])

        if 4 in relations:
            for asset in sorted(hists):
                for mode in ("-a", "config"):
                    if mode == "-a":
                        alone = ws.run("us", args + ["-a", asset], audit=False)
                    else:
                        ws_x = Workspace(ctx.scratch, name + "-only")
                        try:
                            ws_x.write(copy.deepcopy(case["hists"]), config_assets=[asset])
                            alone = ws_x.run("us", args, audit=False)
                            content_alone = _content(alone) if alone.exit == 0 else None
                            tax_alone = tax_report_rows(alone.report("tax_report_us")) if alone.exit == 0 else None
                        finally:
                            ws_x.cleanup()
                    ctx.count("executions")
                    if alone.exit != 0:
                        ctx.violation("determinism.asset-alone-fails", {"asset": asset, "mode": mode, "stderr": alone.stderr[-200:]}, dict(case, relation=4))
                        continue
                    if mode == "-a":
                        content_alone = _content(alone)
                        tax_alone = tax_report_rows(alone.report("tax_report_us"))
                    assert content_alone is not None and tax_alone is not None
                    full = reference["rp2_full_report"]
                    for sheet in (f"{asset} In-Out", f"{asset} Tax"):
                        if content_alone["rp2_full_report"].get(sheet) != full.get(sheet):
                            a_rows, b_rows = content_alone["rp2_full_report"].get(sheet) or [], full.get(sheet) or []
                            i = next((k for k, (x, y) in enumerate(zip(a_rows, b_rows)) if x != y), min(len(a_rows), len(b_rows)))
                            ctx.violation("determinism.asset-results-depend-on-other-assets", {"asset": asset, "mode": mode, "sheet": sheet, "row": i + 1, "alone": str(a_rows[i : i + 1])[:240], "together": str(b_rows[i : i + 1])[:240]}, dict(case, relation=4))
                    summary_alone = [row for row in content_alone["rp2_full_report"].get("Summary", [])[3:]]
                    summary_full = [row for row in full.get("Summary", [])[3:] if len(row) > 1 and f'"{asset}"' in str(row[1])]
                    if summary_alone != summary_full:
                        ctx.violation("determinism.summary-lines-depend-on-other-assets", {"asset": asset, "mode": mode, "alone": str(summary_alone[:1])[:240], "together": str(summary_full[:1])[:240]}, dict(case, relation=4))
                    tax_full = tax_report_rows(base.report("tax_report_us"))
                    strip = lambda rows: [{k: v for k, v in r.items() if k != "sheet_row"} for r in rows if r.get("asset") == asset]
                    for sheet in set(tax_full) | set(tax_alone):
                        if strip(tax_full.get(sheet, [])) != strip(tax_alone.get(sheet, [])):
                            ctx.violation("determinism.tax-report-rows-depend-on-other-assets", {"asset": asset, "mode": mode, "sheet": sheet}, dict(case, relation=4))
                    # open positions: balances, unit cost and cost of X (weights depend on the portfolio and are excluded)
                    pick = lambda content: [[c for j, c in enumerate(row) if j not in (5, 10, 11)][:5] for row in content["open_positions"].get("Asset", [])[3:] if row and row[0] == asset]
                    if pick(content_alone) != pick(reference):
                        ctx.violation("determinism.open-position-rows-depend-on-other-assets", {"asset": asset, "mode": mode, "alone": str(pick(content_alone))[:240], "together": str(pick(reference))[:240]}, dict(case, relation=4))
            ctx.count("relation_4")
    finally:
        ws.cleanup()


def _inproc(ctx: Any, ip: Any, index: int) -> None:
    """One AccountingEngine object reused for several assets in different orders vs a fresh engine per asset."""
    from rpv.drive_inproc import trace_of
    from rpv.gen import Profile, history
    from rpv.oracle.balance import is_valid

    rng = ctx.rng("inproc", index)
    hists = []
    for asset in ("AAA", "BBB", "CCC"):
        h = history(rng, Profile(max_events=12, p_earn=0.4, tie_prob=0.2, price_style=rng.choice(("equal", "mixed"))), asset=asset)
        if is_valid(Model(h)):
            hists.append(h)
    if len(hists) < 2:
        return
    sched = {1970: rng.choice(METHODS)} if rng.random() < 0.6 else {1970: rng.choice(METHODS), 2019: rng.choice(METHODS), 2021: rng.choice(METHODS)}
    fresh = {}
    for h in hists:
        res = ip.run(h, sched)
        ctx.count("executions")
        if not res.ok:
            return
        fresh[h["asset"]] = [f.key() for f in trace_of(res.computed)]
    for order in (hists, list(reversed(hists))):
        engine = ip.engine(sched)
        for h in order:
            res = ip.run(h, sched, engine=engine)
            ctx.count("executions")
            got = [f.key() for f in trace_of(res.computed)] if res.ok else None
            if got != fresh[h["asset"]]:
                ctx.violation("determinism.engine-state-leaks-across-assets", {"asset": h["asset"], "order": [x["asset"] for x in order], "error": res.error[:200]}, {"inproc": True, "hists": hists, "schedule": {str(k): v for k, v in sched.items()}})
    ctx.count("inproc_engine_reuse")


def _inproc_permutation(ctx: Any, ip: Any, index: int, hist: Optional[Dict[str, Any]] = None, sched: Optional[Dict[int, str]] = None, seeds: Optional[List[int]] = None) -> None:
    """Relation 3 at volume: the same rows given other sheet positions (row numbers permuted within each table, which is all
    the parser passes on of the sheet order) must give the same fractions, identified through the unique ids. Timestamps are
    pairwise distinct, many of them less than a second (down to 1 microsecond) apart."""
    from rpv.drive_inproc import trace_of
    from rpv.gen import Profile, assign_rows, history
    from rpv.oracle.balance import is_valid

    rng = ctx.rng("inproc-perm", index)
    if hist is None:
        profile = Profile(max_events=rng.choice((8, 14, 20)), tie_prob=0.0, gap_style=rng.choice(("short", "short", "mixed")), mixed_tz=rng.random() < 0.4, p_earn=0.3, price_style=rng.choice(("equal", "small", "mixed")), n_exchanges=2)
        hist = history(rng, profile)
        if not is_valid(Model(hist)):
            return
        sched = {1970: rng.choice(METHODS)} if rng.random() < 0.7 else {1970: rng.choice(METHODS), 2019: rng.choice(METHODS), 2021: rng.choice(METHODS)}
        seeds = [rng.randint(0, 10**9) for _ in range(2)]
    assert sched is not None and seeds is not None
    reference = None
    for k, seed in enumerate([None] + list(seeds)):
        variant = copy.deepcopy(hist)
        if seed is not None:
            prng = random.Random(seed)
            for table in ("IN", "OUT", "INTRA"):
                rows = [r for r in variant["rows"] if r["t"] == table]
                numbers = [r["row"] for r in rows]
                prng.shuffle(numbers)
                for r, n in zip(rows, numbers):
                    r["row"] = n
        uid = {r["row"]: (r["t"], r["uid"]) for r in variant["rows"]}
        res = ip.run(variant, sched)
        ctx.count("executions")
        if not res.ok:
            outcome: Any = ("error", res.error_type)
        else:
            outcome = sorted((uid[f.event], uid.get(f.lot) if f.lot is not None else None, f.amount, f.proceeds, f.cost, f.gain, f.long) for f in trace_of(res.computed))
        if reference is None:
            reference = outcome
            if not res.ok:
                ctx.count("unobservable")
                return
        elif outcome != reference:
            detail = {"permutation": k, "first": str(reference)[:200], "second": str(outcome)[:200]} if not isinstance(outcome, list) or not isinstance(reference, list) else {"permutation": k, "differing_fractions": len(set(map(str, outcome)) ^ set(map(str, reference)))}
            ctx.violation("determinism.row-order-changes-fractions", detail, {"inproc_permutation": True, "hist": hist, "schedule": {str(y): m for y, m in sched.items()}, "seeds": seeds})
    ctx.count("inproc_row_permutation")
    gaps = sorted(Model(hist).lots[r].utc for r in Model(hist).lots)
    if any((b - a).total_seconds() < 1 for a, b in zip(gaps, gaps[1:])):
        ctx.count("inproc_row_permutation_with_sub_second_lots")


def run_shard(ctx: Any) -> None:
    settings = SETTINGS[ctx.tier]
    ip = get_ip(ctx)
    share = ctx.share(settings["inproc_cases"])
    for i in range(share):
        if (ctx.budget_s - ctx.time_left()) > ctx.budget_s * 0.15:
            break
        _inproc(ctx, ip, ctx.shard + i * ctx.nshards)
    for i in range(ctx.share(settings["inproc_perm_cases"])):
        if (ctx.budget_s - ctx.time_left()) > ctx.budget_s * 0.3:
            break
        _inproc_permutation(ctx, ip, ctx.shard + i * ctx.nshards)
    os.chdir(ctx.scratch)
    for i in range(ctx.share(settings["cases"])):
        if ctx.time_left() < 8:
            break
        index = ctx.shard + i * ctx.nshards
        _one(ctx, make_case(ctx.rng("case", index)), f"c17-{index}")


def replay(ctx: Any, case: Dict[str, Any]) -> None:
    if case.get("inproc_permutation"):
        _inproc_permutation(ctx, get_ip(ctx), 0, case["hist"], {int(k): v for k, v in case["schedule"].items()}, case["seeds"])
        return
    if case.get("inproc"):
        from rpv.drive_inproc import trace_of

        ip = get_ip(ctx)
        sched = {int(k): v for k, v in case["schedule"].items()}
        fresh = {h["asset"]: [f.key() for f in trace_of(ip.run(h, sched).computed)] for h in case["hists"]}
        for order in (case["hists"], list(reversed(case["hists"]))):
            engine = ip.engine(sched)
            for h in order:
                res = ip.run(h, sched, engine=engine)
                got = [f.key() for f in trace_of(res.computed)] if res.ok else None
                if got != fresh[h["asset"]]:
                    ctx.violation("determinism.engine-state-leaks-across-assets", {"asset": h["asset"]}, case)
        return
    _one(ctx, case, "replay", relations=(case["relation"],) if case.get("relation") else (1, 2, 3, 4, 5, 6))


def coverage(merged: Dict[str, Any], tier: str) -> Dict[str, Any]:
    c = merged["counters"]
    return {
        "evaluations": c.get("executions", 0),
        "distinct_nontrivial": len(merged["sets"].get("nontrivial", ())),
        "events_checked": {
            "inputs_checked_for_hash_seed_independence": c.get("relation_1", 0),
            "inputs_checked_for_output_directory_independence": c.get("relation_2", 0),
            "inputs_checked_for_order_independence": c.get("relation_3", 0),
            "inputs_checked_for_asset_independence": c.get("relation_4", 0),
            "inputs_checked_as_second_run_in_one_interpreter": c.get("relation_5", 0),
            "inputs_checked_for_asset_independence_of_the_jp_report": c.get("relation_6", 0),
            "in_process_engine_reuse_cases": c.get("inproc_engine_reuse", 0),
            "in_process_row_permutation_cases": c.get("inproc_row_permutation", 0),
            "of_which_with_lots_less_than_a_second_apart": c.get("inproc_row_permutation_with_sub_second_lots", 0),
        },
    }
