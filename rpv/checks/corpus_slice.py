"""Corpus slice shared by C01-C07: the repository's own example inputs (read by rpv.corpus, not by RP2's parser) run through
the real compute_tax under every method and under the config's own schedule, judged by the property's trace oracle.

These inputs mostly overdraw an account, so they are run with negative balances allowed; C07's reconciliation clause and
C08 are not applied to them. A case dict carries {"corpus": name, "asset": ..., "hist": ..., "schedule": ...} and replays
through the check's ordinary replay (the history is self-contained).
"""

from __future__ import annotations

from typing import Any, Dict, List

from rpv.gen import METHODS
from rpv.model import Model


def _schedules(entry: Dict[str, Any], hist: Dict[str, Any]) -> List[Dict[int, str]]:
    from rpv.gen import own_years

    result: List[Dict[int, str]] = [{1970: m} for m in METHODS]
    if entry["methods"]:
        first = own_years(hist)[0]
        sched = dict(entry["methods"])
        if min(sched) > first:
            # the schedule must cover the first event year: extend its first method backwards
            sched[1970] = sched[min(sched)]
        result.append(sched)
    years = sorted({int(r["ts"][:4]) for r in hist["rows"]})
    if len(years) >= 2:
        result.append({1970: "hifo", years[len(years) // 2]: "lifo", years[-1]: "fifo"})
    return result


def _judge(ctx: Any, prop: str, ip: Any, hist: Dict[str, Any], sched: Dict[int, str], case: Dict[str, Any], label: str) -> None:
    from rpv.drive_inproc import balances_of, trace_of, yearly_of
    from rpv.oracle import trace as T
    from rpv.oracle.balance import check_balances

    model = Model(hist)
    res = ip.run(hist, sched, allow_negative=True)
    ctx.count("executions")
    ctx.count("corpus_runs")
    if not res.ok:
        ctx.count("corpus_unobservable")
        ctx.tag("tag_corpus_unobservable", f"{label}: {res.error[:70]}")
        return
    trace = trace_of(res.computed)
    ctx.count("corpus_fractions", len(trace))
    violations: List[Dict[str, Any]] = []
    if prop == "C01":
        violations = T.check_order(model, trace, sched)
    elif prop == "C02":
        violations = T.check_coverage(model, trace, complete=True)
    elif prop == "C03":
        ids: List[int] = []
        types: Dict[int, str] = {}
        for t in res.computed.taxable_event_set:
            ids.append(t.row)
            types[t.row] = t.transaction_type.value.upper()
        violations, known = T.check_taxable(model, ids, types, trace)
        violations = violations + known
    elif prop == "C04":
        violations = T.check_exact(model, trace)
    elif prop == "C05":
        violations = T.check_long_short(model, trace, 365)
    elif prop == "C06":
        violations = T.check_yearly(model, trace, yearly_of(res.computed))
    elif prop == "C07":
        violations = check_balances(model, balances_of(res.computed))
    for v in violations:
        ctx.violation(v["rule"], dict(v["detail"], observed_at=f"shipped input {label}"), case, mechanism=v["detail"].get("mechanism", ""))


def replay(ctx: Any, prop: str, case: Dict[str, Any]) -> None:
    from rpv.drive_inproc import InProc

    hist = case["hist"]
    ip = InProc(ctx.scratch, tuple(hist["exchanges"]), tuple(hist["holders"]), (hist["asset"],))
    _judge(ctx, prop, ip, hist, {int(y): m for y, m in case["schedule"].items()}, case, f"{case.get('corpus')}/{case.get('asset')}")


def run(ctx: Any, prop: str) -> None:
    from rpv import corpus
    from rpv.drive_inproc import InProc

    entries = corpus.corpus()
    if not entries:
        ctx.notes.append("corpus: no shipped inputs found")
        return
    work = []
    for entry in entries:
        for asset, hist in sorted(entry["hists"].items()):
            if any(r["t"] == "IN" and r.get("cfee") not in (None, "", "0") for r in hist["rows"]):
                continue  # crypto fee on an acquisition exists on the parser path only (CLI checks use those files)
            work.append((entry, asset, hist))
    ips: Dict[str, Any] = {}
    for k, (entry, asset, hist) in enumerate(work):
        if k % ctx.nshards != ctx.shard:
            continue
        key = ",".join(entry["exchanges"] + entry["holders"] + entry["assets"])
        if key not in ips:
            ips[key] = InProc(ctx.scratch, tuple(entry["exchanges"]), tuple(entry["holders"]), tuple(entry["assets"]))
        ip = ips[key]
        if Model(hist).overspend_instant() is not None:
            continue
        ctx.tag("tag_corpus_inputs", entry["name"])
        for sched in _schedules(entry, hist):
            case = {"corpus": entry["name"], "asset": asset, "hist": hist, "schedule": {str(y): m for y, m in sched.items()}, "allow_negative": True}
            _judge(ctx, prop, ip, hist, sched, case, f"{entry['name']}/{asset}")
