"""C20 - Japanese tax report: one sheet per asset-year, chained in year order.

Read-back monitor over sheet names, transaction rows and cross-sheet formula text of tax_report_jp.ods written by real
rp2_jp runs (-g en and the kl test locale).
"""

from __future__ import annotations

import copy
import random
from datetime import date, timedelta
from fractions import Fraction
from typing import Any, Dict, List, Optional

from rpv import families
from rpv.cli_core import add_twin_fee, cli_histories, cli_profile, generator_crash
from rpv.drive_cli import Workspace
from rpv.gen import ALL_IN_TYPES, OUT_TYPES, parse_ts
from rpv.oracle.jp import JPStats, check_jp_report

PROPERTY_ID = "C20"
LEVEL = "exploration"
RULE = (
    "generated valid inputs of 1-3 assets with sparse years, years first met in the OUT or INTRA table, disposal-only "
    "years, years unordered across tables, different year sets and row counts per asset, run through rp2_jp -g en / -g kl "
    "(optionally with -f or -t); sheets must be exactly <asset>_<year> for years with window transactions plus one "
    "<year>_Summary per year; every IN, OUT and fee-bearing transfer of the year listed once with month, day, exchange (or "
    "the transfer label), type, amounts, yen values and fee derived from the input; opening-balance cells must reference "
    "the closing-balance cells (located structurally) of the most recent earlier sheet of the same asset, or be 0; a transfer fee and a FEE "
    "row of the same instant, account and amount are two rows; size sweep: every number of transactions in one asset-year from 26 below "
    "to 2 above the size of the template's calculation sheet (thorough: 1 .. size + 60). "
    "Non-trivial = input where some asset-year's predecessor sheet is not year-1 or a year has only disposals; distinct = "
    "hash of the case"
)
ASSUMPTIONS = [
    "fee-less transfers may be listed or omitted (unspecified)",
    "formula text is checked, formula results are not evaluated",
    "rp2_jp is not given -f together with -t (KF3 of C16)",
]
SETTINGS: Dict[str, Dict[str, Any]] = {
    "quick": {"cases": 96, "budget_s": 60, "minimums": {"asset_year_sheets": 300, "chain_links": 200, "chain_to_non_adjacent_year": 40, "nontrivial": 25, "reports_with_a_fee_row_equal_to_a_transfer_fee": 3, "size_sweep_cases": 20, "reports_with_a_transfer_fee_worth_less_than_5e-14": 2}},
    "thorough": {"cases": 2500, "budget_s": 420, "minimums": {"asset_year_sheets": 2400, "chain_links": 1200, "chain_to_non_adjacent_year": 240, "nontrivial": 240, "reports_with_a_fee_row_equal_to_a_transfer_fee": 36, "size_sweep_cases": 60, "reports_with_a_transfer_fee_worth_less_than_5e-14": 60}},
}


def sparse_case(rng: random.Random) -> Dict[str, Dict[str, Any]]:
    """Directed: buys in some years, disposals / transfers in other years only, gaps, per-asset year sets differ."""
    hists = {}
    for asset in ("AAA", "BBB", "CCC")[: rng.randint(1, 3)]:
        b = families.HB(asset=asset, exchanges=("Coinbase", "Coinbase_Pro"), holders=("Pro_Bob",))
        years = sorted(rng.sample(range(2015, 2025), rng.randint(2, 6)))
        buy_years = [years[0]] + [y for y in years[1:] if rng.random() < 0.4]
        held = 0
        for y in years:
            if y in buy_years:
                for _ in range(rng.randint(1, 3)):
                    amount = rng.choice((2, 5, 10, 20))
                    b.acquire(families.T(y, rng.randint(1, 12), rng.randint(1, 28), rng.randint(0, 23)), amount, rng.randint(20, 900), ttype=rng.choice(ALL_IN_TYPES), ex=rng.choice(b.exchanges))
                    held += amount
            else:
                # disposal-only / transfer-only year
                for _ in range(rng.randint(1, 3)):
                    if held < 2:
                        break
                    kind = rng.random()
                    source = rng.choice([r for r in b.rows if r["t"] == "IN"])
                    if kind < 0.7:
                        b.dispose(families.T(y, rng.randint(1, 12), rng.randint(1, 28), rng.randint(0, 23)), 1, rng.randint(20, 900), ttype=rng.choice(OUT_TYPES), ex=source["ex"], cfee="0.01" if rng.random() < 0.4 else "0")
                        held -= 1
        # keep per-account balances valid: a single exchange per asset for disposals is simplest -> rebuild accounts
        for r in b.rows:
            r["ex"] = "Coinbase" if r["t"] != "INTRA" else r.get("ex")
        if held >= 2 and rng.random() < 0.6:
            y = rng.choice(years[1:]) if len(years) > 1 else years[0]
            last = max(parse_ts(r["ts"]) for r in b.rows)
            b.move(last + timedelta(days=400 if rng.random() < 0.5 else 3), 1, rng.choice(("1", "0.99")), 100, ("Coinbase", "Pro_Bob"), ("Coinbase_Pro", "Pro_Bob"))
        hists[asset] = b.done(rng, shuffle=True)
    return hists


def make_case(rng: random.Random, index: int) -> Dict[str, Any]:
    if index % 4 == 1:
        # own-timestamp years interleaved in instant order around new year (a year appears in two blocks)
        from rpv import families

        hists = {}
        for asset in ("AAA", "BBB")[: rng.randint(1, 2)]:
            hists[asset], _ = families.inverted_dates(rng, asset, kinds=("OUT", "OUT", "IN", "INTRA"), at_new_year=True)
    elif index % 2 == 0:
        hists = sparse_case(rng)
    else:
        hists = cli_histories(rng, rng.randint(1, 3), cli_profile(gap_style=rng.choice(("long", "medium", "boundary")), max_events=rng.choice((8, 14)), min_events=4, tie_prob=0.0, mixed_tz=rng.random() < 0.4))
    if index % 8 in (3, 6):
        # a transfer fee and a FEE-typed out-transaction of the same account, instant and amount: two transactions, two rows
        for hist in hists.values():
            add_twin_fee(rng, hist)
    if index % 8 == 5:
        # a transfer whose crypto fee is worth less than 5e-14 yen: still a fee-bearing transfer, listed with the number it is worth
        from rpv import families

        first = sorted(hists)[0]
        hists[first] = families.tiny_fee_transfer(rng, first)
    language = rng.choice(("en", "kl"))
    dates = sorted({parse_ts(r["ts"]).date() for h in hists.values() for r in h["rows"]})
    from_s = to_s = None
    pick = rng.random()
    if pick < 0.15:
        from_s = rng.choice(dates).isoformat()
    elif pick < 0.3:
        to_s = rng.choice(dates).isoformat()
    return {"hists": hists, "language": language, "from": from_s, "to": to_s}


def _valid(hists: Dict[str, Any]) -> bool:
    from rpv.model import Model
    from rpv.oracle.balance import is_valid

    return all(is_valid(Model(h)) for h in hists.values())


def _one(ctx: Any, case: Dict[str, Any], name: str) -> None:
    from rpv.checks.inproc_util import clean_cut

    ws = Workspace(ctx.scratch, name)
    try:
        hists = copy.deepcopy(case["hists"])
        if case.get("to") and not all(clean_cut(h, date.fromisoformat(case["to"])) for h in hists.values()):
            case = dict(case, to=None)
        ws.write(hists)
        args = ["-g", case["language"]] + (["-f", case["from"]] if case.get("from") else []) + (["-t", case["to"]] if case.get("to") else []) + list(case.get("extra_args", []))
        res = ws.run("jp", args, audit=False)
        ctx.count("executions")
        ctx.count("valid_cases")
        if res.exit != 0:
            crash = generator_crash(res.stderr, "tax_report_jp.py")
            if crash:
                ctx.violation("jp.generator-crashed", {"error": crash}, case)
                return
            # the input and the options are valid by construction and the report this property is about was not produced
            ctx.violation("jp.run-failed-on-valid-input", {"exit": res.exit, "error": res.stderr.strip().splitlines()[-1][:200] if res.stderr.strip() else ""}, case)
            return
        path = res.report("tax_report_jp")
        if not path:
            ctx.violation("jp.file-missing", {"files": res.files}, case)
            return
        stats = JPStats()
        from_d = date.fromisoformat(case["from"]) if case.get("from") else None
        to_d = date.fromisoformat(case["to"]) if case.get("to") else None
        violations = check_jp_report(path, case["language"], hists, from_d, to_d, stats)
        ctx.count("asset_year_sheets", stats.sheets)
        ctx.count("transaction_rows", stats.rows)
        ctx.count("chain_links", stats.chain_links)
        ctx.count("chain_to_non_adjacent_year", stats.chain_to_non_adjacent_year)
        ctx.count("first_year_opening_zero", stats.opening_zero)
        ctx.count("summary_lines", stats.summary_lines)
        ctx.tag("tag_language", case["language"])
        if any(r["t"] == "INTRA" and r.get("spot") and 0 < (Fraction(r["sent"]) - Fraction(r["recv"])) * Fraction(r["spot"]) < Fraction(5, 10**14) for h in hists.values() for r in h["rows"]):
            ctx.count("reports_with_a_transfer_fee_worth_less_than_5e-14")
        if any("twinfee" in str(r.get("uid")) for h in hists.values() for r in h["rows"]):
            ctx.count("reports_with_a_fee_row_equal_to_a_transfer_fee")
        if stats.chain_to_non_adjacent_year:
            ctx.distinct("nontrivial", case)
            ctx.sample({"language": case["language"], "window": [case.get("from"), case.get("to")], "asset_years": {a: sorted({parse_ts(r['ts']).year for r in h['rows']}) for a, h in hists.items()}, "chain_links": stats.chain_links})
        for v in violations[:6]:
            ctx.violation(v["rule"], v["detail"], case)
    finally:
        ws.cleanup()


def sweep_sizes(tier: str) -> List[int]:
    """Numbers of transactions in one asset-year around the number of rows the template's calculation sheet comes with."""
    import glob
    import os

    import ezodf

    from rpv.common import rp2_src

    rows = set()
    for path in glob.glob(os.path.join(rp2_src(), "rp2", "plugin", "report", "data", "jp", "template_tax_report_jp_*.ods")):
        for sheet in ezodf.opendoc(path).sheets:
            if sheet.name == "__Asset":
                rows.add(sheet.nrows())
    top = max(rows or {118})
    return list(range(top - 26, top + 3)) if tier == "quick" else list(range(1, top + 60, 1))


def run_shard(ctx: Any) -> None:
    settings = SETTINGS[ctx.tier]
    from rpv.checks.c14 import many_rows_history

    sizes = sweep_sizes(ctx.tier)
    for k in range(ctx.shard, len(sizes), ctx.nshards):
        if ctx.time_left() < 8:
            break
        n = sizes[k]
        srng = ctx.rng("size", n)
        kind = "sales" if k % 2 == 0 else "interest"
        hists = {"AAA": many_rows_history(srng, "AAA", n, kind)}
        if k % 3 == 0:
            hists["BBB"] = many_rows_history(srng, "BBB", srng.randint(1, 5), "sales")
        ctx.count("size_sweep_cases")
        _one(ctx, {"hists": hists, "language": srng.choice(("en", "kl")), "from": None, "to": None}, f"c20-size-{n}")
    share = ctx.share(settings["cases"])
    for i in range(share):
        if ctx.expired():
            break
        index = ctx.shard + i * ctx.nshards
        rng = ctx.rng("case", index)
        case = make_case(rng, index)
        if index % 8 == 7:
            # one of the repository's own example inputs (run with -n: most of them overdraw an account)
            from rpv.checks.fullreport_common import corpus_case

            shipped = corpus_case(ctx.rng("corpus", index), index // 8)
            if shipped is not None:
                case = {"corpus": shipped["corpus"], "hists": shipped["hists"], "language": rng.choice(("en", "kl")), "from": None, "to": None, "extra_args": ["-n"]}
                ctx.count("shipped_example_input_cases")
        if not case.get("corpus") and not _valid(case["hists"]):
            ctx.count("generated_invalid")
            continue
        _one(ctx, case, f"c20-{index}")


def replay(ctx: Any, case: Dict[str, Any]) -> None:
    _one(ctx, case, "replay")


def coverage(merged: Dict[str, Any], tier: str) -> Dict[str, Any]:
    c = merged["counters"]
    return {
        "evaluations": c.get("executions", 0),
        "distinct_nontrivial": len(merged["sets"].get("nontrivial", ())),
        "events_checked": {
            "asset_year_sheets": c.get("asset_year_sheets", 0),
            "transaction_rows_matched_to_input": c.get("transaction_rows", 0),
            "opening_balance_chain_links": c.get("chain_links", 0),
            "chain_links_to_a_non_adjacent_year": c.get("chain_to_non_adjacent_year", 0),
            "first_year_sheets_with_zero_opening_balance": c.get("first_year_opening_zero", 0),
            "summary_lines": c.get("summary_lines", 0),
        },
        "languages_seen": sorted(merged["sets"].get("tag_language", ())),
    }
