"""C14 - the tax report lists every fraction once, on the sheet of its transaction type (US, IE).

Read-back monitor over every row of every sheet of tax_report_us.ods / tax_report_ie.ods written by real CLI runs,
against the fractions the same tree computes from the same files and options.
"""

from __future__ import annotations

import copy
import random
from datetime import date, timedelta
from fractions import Fraction
from typing import Any, Dict, List, Optional, Tuple

from rpv import families
from rpv.checks.c16 import all_types_history
from rpv.checks.inproc_util import candidate_days, clean_cut, offset_sensitive_days
from rpv.cli_core import cli_histories, cli_profile, generator_crash
from rpv.drive_cli import Workspace
from rpv.drive_inproc import frac
from rpv.expected import Expected
from rpv.gen import ALL_IN_TYPES, METHODS, OUT_TYPES, parse_ts
from rpv.oracle.reports import TAX_SHEET_OF_TYPE, num, tax_report_rows

PROPERTY_ID = "C14"
LEVEL = "exploration"
RULE = (
    "generated valid inputs of 1-3 assets covering all 14 transaction types (incl. LOST, staking losses, transfer fees, "
    "crypto fees on acquisitions), single-type inputs (all other sheets must vanish) and windows that empty some sheets, x "
    "{rp2_us (4 methods), rp2_ie}; the multiset of rows over all sheets must equal the multiset of the window's fractions "
    "(asset, event id + direction, lot id, amount, dates acquired / sold in the country's format, proceeds, cost basis, gain, "
    "LONG/SHORT, k/n labels), each row on the sheet of its type, rows contiguous, sheets without rows absent; size sweep: every "
    "number of rows on one sheet from 44 below to 3 above the size of the template's sheets (thorough: 1 .. size + 130), from one asset or split over two. Non-trivial = "
    "report where >= 2 assets share a sheet or a window empties a sheet; distinct = hash of the case"
)
ASSUMPTIONS = [
    "fractions are those of the same tree computed in the checker process from the same files and options",
    "numbers are compared at 1e-12 relative (cells are doubles)",
    "the LONG / SHORT cell is judged against the flag re-derived from the two timestamps of the fraction (365 whole days for the US, never for IE)",
]
SETTINGS: Dict[str, Dict[str, Any]] = {
    "quick": {"cases": 160, "budget_s": 60, "minimums": {"rows_checked": 1000, "nontrivial": 40, "sheets_checked": 400, "size_sweep_cases": 36}, "required_tags": {"tag_sheets": sorted(set(TAX_SHEET_OF_TYPE.values())), "tag_country": ["us", "ie"]}},
    "thorough": {"cases": 3000, "budget_s": 420, "minimums": {"rows_checked": 4800, "nontrivial": 240, "sheets_checked": 2400, "size_sweep_cases": 90}, "required_tags": {"tag_sheets": sorted(set(TAX_SHEET_OF_TYPE.values())), "tag_country": ["us", "ie"]}},
}


def single_type_history(rng: random.Random, asset: str) -> Dict[str, Any]:
    b = families.HB(asset=asset)
    if rng.random() < 0.3:
        # a lot of 1 January of a leap year sold on 31 December of the same year at the same or a later time of day: 365 whole days
        # within one calendar year
        year = rng.choice((2016, 2020, 2024))
        hour, minute = rng.randint(0, 22), rng.randint(0, 59)
        b.acquire(families.T(year, 1, 1, hour, minute), 10, 100)
        b.dispose(families.T(year, 12, 31, hour, minute) + timedelta(seconds=rng.choice((0, 0, 1, 3000))), 2, 150, ttype=rng.choice(("SELL", "GIFT", "FEE")))
        b.dispose(families.T(year, 12, 30, hour, minute), 1, 140)
        return b.done(rng, shuffle=True)
    t = families.T(rng.randint(2016, 2021), rng.randint(1, 12), rng.randint(1, 28))
    b.acquire(t, 10, 100)
    ttype = rng.choice(OUT_TYPES)
    for k in range(rng.randint(1, 4)):
        b.dispose(t + timedelta(days=30 * (k + 1)), 1, 120 + k, ttype=ttype)
    return b.done(rng, shuffle=True)


def many_rows_history(rng: random.Random, asset: str, n: int, kind: str) -> Dict[str, Any]:
    """Exactly n fractions of one type: n one-unit sales of one big lot (Capital Gains) or n interest payments (Interest)."""
    b = families.HB(asset=asset)
    t = families.T(2019, rng.randint(1, 6), rng.randint(1, 28), rng.randint(0, 23))
    b.acquire(t, n + 3, 100)
    for k in range(n):
        t += timedelta(hours=rng.randint(1, 40))
        if kind == "sales":
            b.dispose(t, 1, 90 + k % 50)
        else:
            b.acquire(t, "0.5", 90 + k % 50, ttype="INTEREST")
    return b.done(rng, shuffle=True)


def size_sweep_case(rng: random.Random, n: int, variant: int) -> Dict[str, Any]:
    """n rows on one sheet of the tax report, from one asset or split a + b over two assets (sizes around the number of rows the
    report templates come with, where a sheet has to grow - or just not)."""
    kind = "sales" if variant % 2 == 0 else "interest"
    if variant % 4 < 2 or n < 2:
        hists = {"AAA": many_rows_history(rng, "AAA", n, kind)}
    else:
        a = rng.randint(1, n - 1)
        hists = {"AAA": many_rows_history(rng, "AAA", a, kind), "BBB": many_rows_history(rng, "BBB", n - a, kind)}
    country = "us" if variant % 3 else "ie"
    return {"hists": hists, "country": country, "method": rng.choice(METHODS) if country == "us" else "fifo", "from": None, "to": None, "rows_on_one_sheet": n}


def make_case(rng: random.Random, index: int) -> Dict[str, Any]:
    kind = index % 4
    if kind == 0:
        hists = {a: all_types_history(rng, a) for a in ("AAA", "BBB", "CCC")[: rng.randint(1, 3)]}
    elif kind == 1:
        hists = {a: single_type_history(rng, a) for a in ("AAA", "BBB")[: rng.randint(1, 2)]}
    else:
        hists = cli_histories(rng, rng.randint(1, 3), cli_profile(p_earn=0.5, p_intra=0.25, max_events=rng.choice((10, 18)), min_events=4, mixed_tz=rng.random() < 0.35, gap_style=rng.choice(("mixed", "boundary", "medium"))))
    country = "us" if index % 3 else "ie"
    method = rng.choice(METHODS) if country == "us" else "fifo"
    days = sorted({d for h in hists.values() for d in candidate_days(rng, h, 5)})
    clean = [d for d in days if all(clean_cut(h, d) for h in hists.values())]
    from_s = to_s = None
    pick = rng.random()
    sensitive = sorted({d for h in hists.values() for d in offset_sensitive_days(h)})
    if sensitive and rng.random() < 0.5:
        # a bound on the own date (or the UTC date) of a row whose two dates differ
        day = rng.choice(sensitive)
        if rng.random() < 0.6 or not all(clean_cut(h, day) for h in hists.values()):
            from_s = day.isoformat()
        else:
            to_s = day.isoformat()
    elif pick < 0.3 and days:
        from_s = rng.choice(days).isoformat()
    elif pick < 0.5 and clean:
        to_s = rng.choice(clean).isoformat()
    elif pick < 0.65 and clean:
        to_d = rng.choice(clean)
        from_s = rng.choice([d for d in days if d <= to_d] or [to_d]).isoformat()
        to_s = to_d.isoformat()
    return {"hists": hists, "country": country, "method": method, "from": from_s, "to": to_s}


def _key_close(a: Tuple[Any, ...], b: Tuple[Any, ...]) -> bool:
    for x, y in zip(a, b):
        if isinstance(x, Fraction) or isinstance(y, Fraction):
            if x is None or y is None:
                if x != y:
                    return False
                continue
            if abs(x - y) > Fraction(1, 10**12) * max(abs(x), abs(y)) + Fraction(1, 10**15):
                return False
        elif x != y:
            return False
    return True


def _one(ctx: Any, expected: Expected, case: Dict[str, Any], name: str) -> None:
    if "-n" not in case.get("extra_args", []):
        from rpv.model import Model
        from rpv.oracle.balance import is_valid

        if not all(is_valid(Model(h)) for h in case["hists"].values()):
            ctx.count("generated_invalid")
            return
    ws = Workspace(ctx.scratch, name)
    try:
        hists = copy.deepcopy(case["hists"])
        ws.write(hists)
        country = case["country"]
        args = ["-m", case["method"]] + (["-f", case["from"]] if case.get("from") else []) + (["-t", case["to"]] if case.get("to") else []) + list(case.get("extra_args", []))
        res = ws.run(country, args, audit=False)
        ctx.count("executions")
        ctx.count("valid_cases")
        if res.exit != 0:
            crash = generator_crash(res.stderr, f"tax_report_{country}.py")
            if crash:
                # a valid input for which the generator under test dies: its fractions are listed nowhere
                ctx.violation("taxreport.generator-crashed", {"error": crash, "country": country}, case)
                return
            # the input and the options are valid by construction and the report this property is about was not produced
            ctx.violation("taxreport.run-failed-on-valid-input", {"exit": res.exit, "error": res.stderr.strip().splitlines()[-1][:200] if res.stderr.strip() else ""}, case)
            return
        path = res.report(f"tax_report_{country}")
        if not path:
            ctx.violation("taxreport.file-missing", {"files": res.files}, case)
            return
        from_d = date.fromisoformat(case["from"]) if case.get("from") else None
        to_d = date.fromisoformat(case["to"]) if case.get("to") else None
        # "the fractions of the window" are derived from the input side: the fractions of the run limited by the to-date only (their
        # k/n labels count history up to the to-date) whose event's own date is on or after the from-date - not from the tree's own
        # from-date view; and that to-date view must hold exactly the unfiltered fractions dated up to the to-date (clean cuts)
        negative = "-n" in case.get("extra_args", [])
        computed = expected.compute(ws.ini, ws.ods, country, {1970: case["method"]}, None, to_d, allow_negative=negative)
        if to_d is not None and all(clean_cut(h, to_d) for h in hists.values()):
            unfiltered = expected.compute(ws.ini, ws.ods, country, {1970: case["method"]}, None, None, allow_negative=negative)
            for asset in sorted(computed):
                upto = [(g.taxable_event.unique_id, g.acquired_lot.unique_id if g.acquired_lot else "", frac(g.crypto_amount)) for g in unfiltered[asset].gain_loss_set if g.taxable_event.timestamp.date() <= to_d]
                view = [(g.taxable_event.unique_id, g.acquired_lot.unique_id if g.acquired_lot else "", frac(g.crypto_amount)) for g in computed[asset].gain_loss_set]
                if upto != view:
                    ctx.violation("taxreport.to-date-view-is-not-the-history-up-to-the-to-date", {"asset": asset, "in_view": len(view), "expected": len(upto)}, case)
        date_format = "%m/%d/%Y" if country == "us" else "%Y/%m/%d"
        expected_by_sheet: Dict[str, List[Tuple[Any, ...]]] = {}
        for asset in sorted(computed):
            gls = computed[asset].gain_loss_set
            for g in gls:
                event, lot = g.taxable_event, g.acquired_lot
                if from_d is not None and event.timestamp.date() < from_d:
                    continue
                direction = "IN" if type(event).__name__ == "InTransaction" else ("OUT" if type(event).__name__ == "OutTransaction" else "INTRA")
                ttype = event.transaction_type.value.upper()
                event_note = f"{gls.get_taxable_event_fraction(g) + 1}/{gls.get_taxable_event_number_of_fractions(event)}: {g.crypto_amount:.8f} of {event.crypto_balance_change:.8f} {asset}"
                lot_note = ""
                if lot is not None:
                    lot_note = f"{gls.get_acquired_lot_fraction(g) + 1}/{gls.get_acquired_lot_number_of_fractions(lot)}: {g.crypto_amount:.8f} of {lot.crypto_balance_change:.8f} {asset}"
                key = (
                    asset,
                    event.unique_id,
                    f"{direction} / {ttype}",
                    lot.unique_id if lot is not None else "",
                    frac(g.crypto_amount),
                    lot.timestamp.strftime(date_format) if lot is not None else "",
                    event.timestamp.strftime(date_format),
                    frac(g.taxable_event_fiat_amount_with_fee_fraction),
                    frac(g.fiat_cost_basis) if lot is not None else None,
                    frac(g.fiat_gain),
                    # the flag is re-derived from the two timestamps (C05's rule: whole days elapsed >= 365 for the US, never for IE), not
                    # taken from the tree under test
                    "LONG" if (lot is not None and country == "us" and (event.timestamp - lot.timestamp).days >= 365) else "SHORT",
                    event_note,
                    lot_note,
                    str(event.timestamp),
                )
                expected_by_sheet.setdefault(TAX_SHEET_OF_TYPE[ttype], []).append(key)
        shown = tax_report_rows(path)
        violations: List[Tuple[str, Dict[str, Any]]] = []
        if sorted(shown) != sorted(expected_by_sheet):
            violations.append(("taxreport.sheet-set", {"shown": sorted(shown), "expected": sorted(expected_by_sheet)}))
        for sheet_name, rows in shown.items():
            ctx.count("sheets_checked")
            ctx.tag("tag_sheets", sheet_name)
            exp = list(expected_by_sheet.get(sheet_name, []))
            if any(r.get("after_gap") for r in rows):
                violations.append(("taxreport.rows-not-contiguous", {"sheet": sheet_name}))
            rows = [r for r in rows if not r.get("after_gap")]
            if not rows:
                violations.append(("taxreport.empty-sheet-kept", {"sheet": sheet_name}))
            if len(rows) != len(exp):
                violations.append(("taxreport.row-count", {"sheet": sheet_name, "shown": len(rows), "expected": len(exp)}))
                continue
            for r in rows:
                key = (
                    r["asset"],
                    str(r["event_uid"] if r["event_uid"] is not None else ""),
                    r["dir_type"],
                    str(r["lot_uid"] if r["lot_uid"] is not None else ""),
                    num(r["amount"]),
                    r["date_acquired"] or "",
                    r["date_sold"],
                    num(r["proceeds"]),
                    num(r["cost"]) if r["cost"] not in (None, "") else None,
                    num(r["gain"]),
                    r["kind"],
                    r["event_note"],
                    r["lot_note"] or "",
                    str(r["event_ts"]),
                )
                match = next((e for e in exp if _key_close(key, e)), None)
                ctx.count("rows_checked")
                if match is None:
                    same_pair = [e for e in exp if e[:4] == key[:4]]
                    violations.append(("taxreport.row-not-a-computed-fraction" if not same_pair else "taxreport.row-values-differ", {"sheet": sheet_name, "shown": [str(x) for x in key], "computed": [str(x) for x in (same_pair[0] if same_pair else ())]}))
                    break
                exp.remove(match)
            else:
                if exp:
                    violations.append(("taxreport.fraction-missing", {"sheet": sheet_name, "missing": [str(x) for x in exp[0]]}))
        ctx.tag("tag_country", country)
        shared = any(len({r["asset"] for r in rows if "asset" in r}) >= 2 for rows in shown.values())
        emptied = (from_d or to_d) and len(shown) < len({TAX_SHEET_OF_TYPE[e["type"]] if e["t"] != "INTRA" else "Investment Expenses" for h in hists.values() for e in h["rows"] if e["t"] != "IN" or e["type"] in TAX_SHEET_OF_TYPE and e["type"] not in ("BUY", "GIFT", "DONATE")})
        if shared or emptied:
            ctx.distinct("nontrivial", case)
            ctx.sample({"country": country, "method": case["method"], "window": [case.get("from"), case.get("to")], "sheets": {k: len(v) for k, v in shown.items()}})
        for rule, detail in violations[:6]:
            ctx.violation(rule, detail, case)
    finally:
        ws.cleanup()


def run_shard(ctx: Any) -> None:
    expected = Expected(ctx.scratch)
    settings = SETTINGS[ctx.tier]
    # size sweep: every row count from a little below to a little above the size of the template's sheets (102 rows today; read
    # from the tree's own template), single asset and split over two, both countries
    sizes = sweep_sizes(ctx.tier)
    for k in range(ctx.shard, len(sizes), ctx.nshards):
        if ctx.time_left() < 6:
            break
        n = sizes[k]
        case = size_sweep_case(ctx.rng("size", n), n, k)
        ctx.count("size_sweep_cases")
        ctx.tag("tag_rows_on_one_sheet", str(n))
        _one(ctx, expected, case, f"c14-size-{n}")
    share = ctx.share(settings["cases"])
    for i in range(share):
        if ctx.expired():
            break
        index = ctx.shard + i * ctx.nshards
        case = make_case(ctx.rng("case", index), index)
        if index % 8 == 6:
            # one of the repository's own example inputs (run with -n: most of them overdraw an account)
            from rpv.checks.fullreport_common import corpus_case

            shipped = corpus_case(ctx.rng("corpus", index), index // 8)
            if shipped is not None:
                country = "us" if (index // 8) % 2 == 0 else "ie"
                case = {"corpus": shipped["corpus"], "hists": shipped["hists"], "country": country, "method": shipped["schedule"].get("1970", "fifo") if country == "us" and len(shipped["schedule"]) == 1 else "fifo", "from": shipped["from"], "to": shipped["to"], "extra_args": ["-n"]}
                ctx.count("shipped_example_input_cases")
        _one(ctx, expected, case, f"c14-{index}")


def sweep_sizes(tier: str) -> List[int]:
    import glob
    import os

    import ezodf

    from rpv.common import rp2_src

    rows = set()
    for path in glob.glob(os.path.join(rp2_src(), "rp2", "plugin", "report", "data", "*", "template_tax_report_[ui][se]_*.ods")):
        for sheet in ezodf.opendoc(path).sheets:
            if not sheet.name.startswith("__Legend") and sheet.name != "__styles":
                rows.add(sheet.nrows())
    top = max(rows or {102})
    if tier == "quick":
        return list(range(top - 44, top + 4))
    return list(range(1, top + 130))


def replay(ctx: Any, case: Dict[str, Any]) -> None:
    _one(ctx, Expected(ctx.scratch), case, "replay")


def coverage(merged: Dict[str, Any], tier: str) -> Dict[str, Any]:
    c = merged["counters"]
    return {
        "evaluations": c.get("executions", 0),
        "distinct_nontrivial": len(merged["sets"].get("nontrivial", ())),
        "events_checked": {"rows": c.get("rows_checked", 0), "sheets": c.get("sheets_checked", 0)},
        "sheets_seen": sorted(merged["sets"].get("tag_sheets", ())),
    }
