"""C02 - every disposal fully covered by earlier lots, no lot overspent, fail-closed on overspend.

Conservation checker over the fraction trace of real compute_tax runs against the input rows, plus the must-fail /
must-succeed decision taken from the input alone (cumulative lots vs cumulative disposals per instant).
"""

from __future__ import annotations

import copy
from datetime import timedelta
from decimal import Decimal
from fractions import Fraction
from typing import Any, Dict, List, Optional

from rpv import families
from rpv.checks.inproc_util import candidate_days, clean_cut
from rpv.gen import ASSETS, EXCHANGES, HOLDERS, METHODS, dstr, fmt_ts, parse_ts
from rpv.model import Model
from rpv.oracle.balance import overdraft
from rpv.oracle.trace import check_coverage, consumed_per_lot
from rpv.workload import matcher_cases

PROPERTY_ID = "C02"
LEVEL = "exploration"
RULE = (
    "valid generated histories (same mix as C01) x methods/schedules, also limited by to-dates (clean cuts and cuts between own dates whose order is the reverse of the instants': matching covers all history, so the run must succeed), must succeed with exact per-event coverage and no "
    "lot overspent at any prefix; their over-spending mutants (inflated disposal, deleted lot, disposal moved before its "
    "funding - also transient overspends refilled later) must raise whenever cumulative disposals exceed cumulative "
    "lots at some instant, with and without -n; every valid history extended by final disposals of each account's whole "
    "balance must succeed and leave every lot exactly exhausted. Non-trivial = a disposal spanning >= 2 lots, or a "
    "must-fail mutant, or a sell-everything extension; distinct = hash of (history, schedule, mode). "
    "The repository's own example inputs (input/*.ods read independently of RP2's parser, every method and the config's schedule, -n) are part of the workload"
)
ASSUMPTIONS = [
    "which error is raised on overspend is not constrained",
    "a mutant that overdraws an account without overspending the lots is C08's subject: either outcome is accepted here",
    "amounts have <= 11 decimals so sums are compared exactly",
]
SETTINGS: Dict[str, Dict[str, Any]] = {
    "quick": {"cases": 1500, "cli_cases": 48, "budget_s": 50, "minimums": {"corpus_runs": 100, "runs_with_to_date": 1500, "inverted_to_date_runs_succeeded": 100, "must_fail_observed": 150, "sell_all_observed": 300, "multi_lot_events": 1000, "cli_runs": 6}},
    "thorough": {"cases": 80000, "cli_cases": 300, "budget_s": 420, "minimums": {"corpus_runs": 100, "must_fail_observed": 4800, "sell_all_observed": 9000, "multi_lot_events": 30000, "cli_runs": 90}},
}


def sell_everything(hist: Dict[str, Any]) -> Optional[Dict[str, Any]]:
    """Extend a valid history by one final disposal per account of its whole remaining balance."""
    model = Model(hist)
    balances = model.balances()
    last = max(parse_ts(r["ts"]) for r in hist["rows"])
    h = copy.deepcopy(hist)
    next_row = max(r["row"] for r in h["rows"]) + 10
    added = 0
    for index, (account, b) in enumerate(sorted(balances.items())):
        if b["final"] <= 0:
            continue
        amount = Decimal(b["final"].numerator) / Decimal(b["final"].denominator)
        h["rows"].append(
            {
                "t": "OUT",
                "row": next_row,
                "ts": fmt_ts(last + timedelta(days=1 + index % 2, seconds=index), 0),
                "ex": account[0],
                "ho": account[1],
                "type": ("SELL", "GIFT", "DONATE", "LOST")[index % 4],
                "spot": "123.45",
                "cout": dstr(amount),
                "cfee": "0",
                "cout_wf": None,
                "fout_nf": None,
                "ffee": None,
                "uid": f"{h['asset']}-OUT-final{index}",
                "notes": "",
            }
        )
        next_row += 1
        added += 1
    return h if added else None


def _run_one(ctx: Any, ip: Any, family: str, hist: Dict[str, Any], sched: Dict[int, str], mode: str, allow_negative: bool = False, to_s: Optional[str] = None) -> None:
    from rpv.drive_inproc import trace_of

    model = Model(hist)
    lot_over = model.overspend_instant()
    od = overdraft(model)
    from datetime import date as _date

    to_d = _date.fromisoformat(to_s) if to_s else None
    res = ip.run(hist, sched, allow_negative=allow_negative, to_date=to_d)
    ctx.count("executions")
    if to_d:
        ctx.count("runs_with_to_date")
    case = {"hist": hist, "schedule": {str(k): v for k, v in sched.items()}, "mode": mode, "allow_negative": allow_negative, "to": to_s}
    ctx.tag("tag_mode", mode)
    if lot_over is not None:
        ctx.count("must_fail_observed")
        ctx.distinct("nontrivial", case)
        if res.ok:
            ctx.violation("coverage.overspend-not-rejected", {"first_overspend_instant": str(lot_over), "method": case["schedule"]}, case)
        else:
            ctx.tag("tag_errors", f"{res.error_type}: {res.error[:70]}")
        return
    must_succeed = od.must_accept or allow_negative
    if must_succeed:
        ctx.count("valid_cases")
    if not res.ok:
        if must_succeed:
            ctx.violation("coverage.valid-history-rejected", {"error": f"{res.error_type}: {res.error[:300]}", "method": case["schedule"]}, case)
        else:
            ctx.count("rejected_for_account_overdraft")
        return
    trace = trace_of(res.computed)
    if to_d is not None and not clean_cut(hist, to_d):
        # which rows a cut between inverted own dates keeps is KF1 (C10); that the run succeeds is what is decided here
        ctx.count("inverted_to_date_runs_succeeded")
        violations = check_coverage(model, trace, complete=False)
    else:
        violations = check_coverage(model, trace, complete=True, up_to=to_d)
    per_event: Dict[int, int] = {}
    for f in trace:
        if f.lot is not None:
            per_event[f.event] = per_event.get(f.event, 0) + 1
    multi = sum(1 for n in per_event.values() if n >= 2)
    ctx.count("multi_lot_events", multi)
    ctx.count("fractions", len(trace))
    if mode == "sell-all":
        ctx.count("sell_all_observed")
        consumed = consumed_per_lot(trace)
        for row, lot in model.lots.items():
            if consumed.get(row, Fraction(0)) != lot.amount:
                violations.append({"rule": "coverage.lot-not-exhausted-after-selling-everything", "detail": {"lot": row, "consumed": str(consumed.get(row, 0)), "amount": str(lot.amount)}})
    if multi or mode != "valid":
        ctx.distinct("nontrivial", case)
    for v in violations:
        ctx.violation(v["rule"], v["detail"], case)
    if multi:
        ctx.sample({"family": family, "mode": mode, "schedule": case["schedule"], "n_rows": len(hist["rows"]), "rows": hist["rows"][:5], "trace": [f.to_json() for f in trace[:5]]})


def run_shard(ctx: Any) -> None:
    from rpv.checks import corpus_slice

    corpus_slice.run(ctx, PROPERTY_ID)  # the repository's own example inputs, every method and the config's schedule
    from rpv.drive_inproc import InProc

    ip = InProc(ctx.scratch, EXCHANGES, HOLDERS, ASSETS)
    settings = SETTINGS[ctx.tier]
    share = ctx.share(settings["cases"])
    index = ctx.shard
    done = 0
    while done < share and (ctx.budget_s - ctx.time_left()) < ctx.budget_s * 0.75:
        rng = ctx.rng("mut", index)
        for family, hist, schedules in matcher_cases(ctx, index):
            model = Model(hist)
            valid = overdraft(model).must_accept and model.overspend_instant() is None
            if not valid:
                ctx.count("generated_invalid")
            for sched in schedules:
                _run_one(ctx, ip, family, hist, sched, "valid" if valid else "as-generated")
            if not valid:
                continue
            # the same valid history limited by a to-date (matching still covers all history): must succeed, shown events fully covered
            days = candidate_days(rng, hist, 3)
            for d in days[:2]:
                _run_one(ctx, ip, family, hist, rng.choice(schedules), "valid-to-date", to_s=d.isoformat())
            # sell-everything extension
            extended = sell_everything(hist)
            if extended is not None:
                for sched in schedules[:2] + schedules[-1:]:
                    _run_one(ctx, ip, family, extended, sched, "sell-all")
            # over-spending mutants
            for _ in range(2):
                mutant = families.total_overspend(hist, rng)
                if mutant is None:
                    continue
                sched = rng.choice(schedules)
                _run_one(ctx, ip, family, mutant, sched, "overspend-mutant", allow_negative=False)
                _run_one(ctx, ip, family, mutant, sched, "overspend-mutant-n", allow_negative=True)
        if index % 5 == 0:
            hist, to_s = families.lot_after_cut_needed(rng)
            if overdraft(Model(hist)).must_accept and Model(hist).overspend_instant() is None:
                for method in METHODS:
                    _run_one(ctx, ip, "lot-after-cut-needed", hist, {1970: method}, "valid-to-date", to_s=to_s)
                _run_one(ctx, ip, "lot-after-cut-needed", hist, {1970: rng.choice(METHODS)}, "valid")
        index += ctx.nshards
        done += 1
    ctx.count("inputs", done)
    try:
        from rpv.checks import cli_slices
    except ImportError:
        return
    cli_slices.c02(ctx, settings["cli_cases"])


def replay(ctx: Any, case: Dict[str, Any]) -> None:
    if case.get("corpus"):
        from rpv.checks import corpus_slice

        corpus_slice.replay(ctx, PROPERTY_ID, case)
        return
    from rpv.drive_inproc import InProc

    if case.get("cli"):
        from rpv.checks import cli_slices

        cli_slices.c02_replay(ctx, case)
        return
    ip = InProc(ctx.scratch, EXCHANGES, HOLDERS, ASSETS)
    _run_one(ctx, ip, "replay", case["hist"], {int(k): v for k, v in case["schedule"].items()}, case.get("mode", "valid"), case.get("allow_negative", False), to_s=case.get("to"))


def coverage(merged: Dict[str, Any], tier: str) -> Dict[str, Any]:
    c = merged["counters"]
    return {
        "evaluations": c.get("executions", 0),
        "distinct_nontrivial": len(merged["sets"].get("nontrivial", ())),
        "events_checked": {
            "fractions": c.get("fractions", 0),
            "events_spanning_several_lots": c.get("multi_lot_events", 0),
            "must_fail_runs": c.get("must_fail_observed", 0),
            "sell_everything_runs": c.get("sell_all_observed", 0),
            "cli_runs": c.get("cli_runs", 0),
        },
    }
