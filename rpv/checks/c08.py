"""C08 - histories that overdraw an account are rejected unless -n is given.

Temporal, three-valued oracle over the input rows (per account, in chronological order) vs the outcome of real
compute_tax runs with both values of the -n switch.
"""

from __future__ import annotations

import copy
from datetime import date, timedelta, timezone
from decimal import Decimal
from fractions import Fraction
from typing import Any, Dict, List, Optional

from rpv.checks.inproc_util import candidate_days, clean_cut, get_ip, sched_from_json, sched_json
from rpv.gen import METHODS, Profile, Q11, assign_rows, dstr, fmt_ts, history, parse_ts
from rpv.model import Model
from rpv.workload import deepen
from rpv.oracle.balance import is_valid, overdraft

PROPERTY_ID = "C08"
LEVEL = "exploration"
RULE = (
    "valid generated histories and their overdraft mutants: a debit inflated by {2e-10,1e-9,1e-6,1e-3,0.5,3}, by dust 5e-11 "
    "(unspecified zone), a debit moved before its funding (transient overdraft later refilled), a debit moved to another "
    "account that does not hold the coins, a debit leaving its account 1e-11..5e-11 below zero followed by a real overdraft of that account, "
    "(CLI) an acquisition whose crypto fee exceeds what its account holds, legs of one transaction at one instant (same unique id vs distinct ids: same verdict), rows shuffled so that sheet order != time order; x {-n off, -n on} x to-dates "
    "before / after the overdraft x from-dates and from+to windows (balances cover all history up to the to-date, so a "
    "from-date never changes the verdict). Oracle per history: must-reject (an account is below -1e-10 once all rows of an instant are "
    "applied) / must-accept (no ordering of same-instant rows can overdraw) / unspecified (never alarms). Non-trivial = "
    "must-reject mutant or must-accept history with a same-instant credit+debit; distinct = hash of (history, -n, to-date)"
)
ASSUMPTIONS = [
    "mutants whose lots no longer cover the disposals are excluded (C02 decides those, and the lot error is raised first)",
    "balances in (-1e-10, 0) and chains of transfers inside one instant are unspecified: either outcome is accepted",
    "inside one instant acquisitions are credited first, then transfers, then out-transactions are debited (as the pinned tree does): a disposal funded by a transfer of the same instant must be accepted",
]
SETTINGS: Dict[str, Dict[str, Any]] = {
    "quick": {"cases": 1600, "cli_cases": 48, "budget_s": 45, "minimums": {"must_reject_runs": 800, "must_accept_runs": 1500, "with_n_negative_reported": 300, "nontrivial": 800, "cli_runs": 8, "runs_with_from_date": 1500, "same_instant_transfer_then_sale_cases": 100, "dust_then_real_overdraft_runs": 700, "cli_runs_with_in_fee_overdraft": 3, "unique_id_independence_pairs": 100}},
    "thorough": {"cases": 60000, "cli_cases": 300, "budget_s": 300, "minimums": {"must_reject_runs": 18000, "must_accept_runs": 36000, "with_n_negative_reported": 6000, "nontrivial": 18000, "cli_runs": 90, "runs_with_from_date": 30000, "same_instant_transfer_then_sale_cases": 1800, "dust_then_real_overdraft_runs": 12000, "cli_runs_with_in_fee_overdraft": 9, "unique_id_independence_pairs": 900}},
}
PROFILES = [
    Profile(n_exchanges=2, n_holders=1, p_intra=0.25, tie_prob=0.3, max_events=16),
    Profile(n_exchanges=2, n_holders=2, p_intra=0.3, tie_prob=0.4, mixed_tz=True, max_events=18),
    Profile(n_exchanges=3, n_holders=1, p_intra=0.35, max_events=20, amount_style="dec11"),
]
INFLATE = [Decimal("0.0000000002"), Decimal("0.000000001"), Decimal("0.000001"), Decimal("0.001"), Decimal("0.5"), Decimal(3)]
DUST = Decimal("0.00000000005")


def mutants(hist: Dict[str, Any], rng: Any) -> List[Dict[str, Any]]:
    """Overdraft mutants that keep the lots sufficient: the debited account empties while others still hold coins."""
    result = []
    model = Model(hist)
    balances = model.balances()
    accounts = [(e, h) for e in hist["exchanges"] for h in hist["holders"]]
    debits = [r for r in hist["rows"] if r["t"] in ("OUT", "INTRA")]
    if not debits:
        return result
    # 1. inflate a debit beyond the account's final balance by delta (account ends delta below zero at that row or later)
    for delta in rng.sample(INFLATE, 2) + [DUST]:
        h = copy.deepcopy(hist)
        r = rng.choice([x for x in h["rows"] if x["t"] in ("OUT", "INTRA")])
        account = (r["ex"], r["ho"]) if r["t"] == "OUT" else (r["fex"], r["fho"])
        final = balances[account]["final"]
        extra = Decimal(final.numerator) / Decimal(final.denominator) + delta
        if r["t"] == "OUT":
            field = "cfee" if r["type"] == "FEE" else "cout"
            r[field] = dstr(Decimal(r[field]) + extra)
            r["cout_wf"] = None
        else:
            r["sent"] = dstr(Decimal(r["sent"]) + extra)
            r["recv"] = dstr(Decimal(r["recv"]) + extra)
        result.append(h)
    # 1b. the same inflation on an out-row that also carries an exchange-supplied crypto_out_with_fee cell, left at its old
    #     (now too small) value: what leaves the account is amount + fee, whatever that optional cell says
    outs = [x for x in hist["rows"] if x["t"] == "OUT" and x["type"] != "FEE"]
    if outs:
        h = copy.deepcopy(hist)
        r = rng.choice([x for x in h["rows"] if x["t"] == "OUT" and x["type"] != "FEE"])
        account = (r["ex"], r["ho"])
        final = balances[account]["final"]
        delta = rng.choice(INFLATE[2:])
        r["cout_wf"] = dstr(Decimal(r["cout"]) + Decimal(r["cfee"]))
        r["cout"] = dstr(Decimal(r["cout"]) + Decimal(final.numerator) / Decimal(final.denominator) + delta)
        result.append(h)
    # 2. a debit moved one instant before the first funding of its account (transient overdraft, refilled later)
    h = copy.deepcopy(hist)
    r = rng.choice([x for x in h["rows"] if x["t"] in ("OUT", "INTRA")])
    account = (r["ex"], r["ho"]) if r["t"] == "OUT" else (r["fex"], r["fho"])
    funding = [parse_ts(x["ts"]) for x in h["rows"] if (x["t"] == "IN" and (x["ex"], x["ho"]) == account) or (x["t"] == "INTRA" and (x["tex"], x["tho"]) == account)]
    if funding:
        r["ts"] = fmt_ts(min(funding) - rng.choice((timedelta(microseconds=1), timedelta(days=1))), 0)
        result.append(h)
    # 3. a debit moved to an account that does not hold the coins
    if len(accounts) > 1:
        h = copy.deepcopy(hist)
        outs = [x for x in h["rows"] if x["t"] == "OUT"]
        if outs:
            r = rng.choice(outs)
            r["ex"], r["ho"] = rng.choice([a for a in accounts if a != (r["ex"], r["ho"])])
            result.append(h)
    # 4. a debit that leaves its account a tolerated 1e-11..5e-11 below zero, followed by a real overdraft of the same account
    #    (the balance is already negative when the second debit arrives: the check is on the new balance, not on the crossing)
    h = copy.deepcopy(hist)
    account = rng.choice(sorted({(x["ex"], x["ho"]) if x["t"] == "OUT" else (x["fex"], x["fho"]) for x in debits}))
    own = [x for x in h["rows"] if (x["t"] == "OUT" and (x["ex"], x["ho"]) == account) or (x["t"] == "INTRA" and (x["fex"], x["fho"]) == account)]
    r = max(own, key=lambda x: parse_ts(x["ts"]))
    final = balances[account]["final"]
    elsewhere = sum((b["final"] for a, b in balances.items() if a != account), Fraction(0))
    if elsewhere > Fraction(1, 1000):
        extra = Decimal(final.numerator) / Decimal(final.denominator) + Decimal(rng.randint(1, 5)) * Q11
        if r["t"] == "OUT":
            field = "cfee" if r["type"] == "FEE" else "cout"
            r[field] = dstr(Decimal(r[field]) + extra)
            r["cout_wf"] = None
        else:
            r["sent"] = dstr(Decimal(r["sent"]) + extra)
            r["recv"] = dstr(Decimal(r["recv"]) + extra)
        last = max(parse_ts(x["ts"]) for x in h["rows"])
        amount = min(Decimal("0.5"), (Decimal(elsewhere.numerator) / Decimal(elsewhere.denominator) / 4).quantize(Q11))
        if amount > 0:
            spot = next(x["spot"] for x in h["rows"] if x.get("spot"))
            h["rows"].append({"t": "OUT", "ts": fmt_ts(last + rng.choice((timedelta(microseconds=1), timedelta(days=3))), 0), "ex": account[0], "ho": account[1], "type": rng.choice(("SELL", "FEE", "GIFT")), "spot": spot, "cout": dstr(amount), "cfee": "0", "cout_wf": None, "fout_nf": None, "ffee": None, "uid": "dust-then-real", "notes": ""})
            if h["rows"][-1]["type"] == "FEE":
                h["rows"][-1]["cout"], h["rows"][-1]["cfee"] = "0", dstr(amount)
            assign_rows(rng, h["rows"])
            h["dust_then_real"] = True
            result.append(h)
    return result


def _observe(ctx: Any, ip: Any, hist: Dict[str, Any], sched: Dict[int, str], allow_negative: bool, to_s: Optional[str], kind: str, from_s: Optional[str] = None) -> None:
    from rpv.drive_inproc import balances_of

    model = Model(hist)
    to_d = date.fromisoformat(to_s) if to_s else None
    from_d = date.fromisoformat(from_s) if from_s else None
    if model.overspend_instant() is not None:
        ctx.count("skipped_lot_overspend")
        return
    od = overdraft(model, to_d)
    # balances cover all history up to the to-date: a from-date never changes the verdict
    res = ip.run(hist, sched, from_date=from_d, to_date=to_d, allow_negative=allow_negative)
    ctx.count("executions")
    if from_s:
        ctx.count("runs_with_from_date")
    case = {"hist": hist, "schedule": sched_json(sched), "allow_negative": allow_negative, "to": to_s, "from": from_s, "kind": kind}
    if hist.get("dust_then_real") and not allow_negative and od.verdict == "must_reject":
        ctx.count("dust_then_real_overdraft_runs")
    ctx.tag("tag_kind", f"{kind}:{od.verdict}:{'n' if allow_negative else '-'}")
    nontrivial = False
    if allow_negative:
        ctx.count("valid_cases")
        if not res.ok:
            ctx.violation("overdraft.rejected-although-n-given", {"error": f"{res.error_type}: {res.error[:300]}", "oracle": od.verdict}, case)
            return
        ctx.count("with_n_runs")
        observed = {(b[0], b[1]): b[5] for b in balances_of(res.computed)}
        expected = model.balances(to_d)
        for account in od.negative_final:
            if account in expected and expected[account]["final"] < 0:
                if observed.get(account) != expected[account]["final"]:
                    ctx.violation("overdraft.negative-balance-not-reported", {"account": list(account), "got": str(observed.get(account)), "expected": str(expected[account]["final"])}, case)
                else:
                    ctx.count("with_n_negative_reported")
                    nontrivial = True
    elif od.verdict == "must_reject":
        ctx.count("must_reject_runs")
        nontrivial = True
        if res.ok:
            ctx.violation("overdraft.not-rejected", {"overdrawn": [list(a) for a in od.overdrawn_accounts], "first_instant": str(od.first_instant)}, case)
        else:
            ctx.tag("tag_errors", res.error[:40])
            named = any(f'"{a[0]}"' in res.error and f'"{a[1]}"' in res.error for a in od.overdrawn_accounts)
            # an account in the unspecified dust zone may legitimately be named first
            if not named and "went negative" not in res.error:
                ctx.violation("overdraft.error-does-not-name-account", {"error": res.error[:300], "overdrawn": [list(a) for a in od.overdrawn_accounts]}, case)
            elif named:
                ctx.count("rejections_naming_an_overdrawn_account")
    elif od.verdict == "must_accept":
        ctx.count("must_accept_runs")
        ctx.count("valid_cases")
        if not res.ok:
            ctx.violation("overdraft.valid-history-rejected", {"error": f"{res.error_type}: {res.error[:300]}"}, case)
        instants: Dict[Any, set] = {}
        for r in hist["rows"]:
            instants.setdefault(parse_ts(r["ts"]).astimezone(timezone.utc), set()).add(r["t"])
        if any("IN" in kinds and len(kinds) > 1 for kinds in instants.values()):
            nontrivial = True
            ctx.count("must_accept_same_instant_credit_and_debit")
    else:
        ctx.count("unspecified_runs")
        ctx.tag("tag_unspecified_outcome", "accepted" if res.ok else "rejected")
    if nontrivial:
        ctx.distinct("nontrivial", case)
        ctx.sample({"kind": kind, "oracle": od.verdict, "allow_negative": allow_negative, "to": to_s, "outcome": "ok" if res.ok else res.error[:120], "n_rows": len(hist["rows"])})


def run_shard(ctx: Any) -> None:
    ip = get_ip(ctx)
    settings = SETTINGS[ctx.tier]
    share = ctx.share(settings["cases"])
    index = ctx.shard
    done = 0
    while done < share and (ctx.budget_s - ctx.time_left()) < ctx.budget_s * 0.75:
        rng = ctx.rng("case", index)
        hist = history(rng, deepen(ctx, index, PROFILES[index % len(PROFILES)]))
        if is_valid(Model(hist)):
            sched = {1970: rng.choice(METHODS)}
            _observe(ctx, ip, hist, sched, False, None, "valid")
            # the same valid history seen through from / from+to windows (on, next to and between transaction dates)
            window_days = sorted(candidate_days(rng, hist, 4))
            if window_days:
                _observe(ctx, ip, hist, sched, False, None, "valid-from-date", from_s=window_days[len(window_days) // 2].isoformat())
                clean = [d for d in window_days if clean_cut(hist, d)]
                if clean:
                    _observe(ctx, ip, hist, sched, False, clean[-1].isoformat(), "valid-from-to", from_s=window_days[0].isoformat())
            for m in mutants(hist, rng):
                _observe(ctx, ip, m, sched, False, None, "mutant")
                _observe(ctx, ip, m, sched, True, None, "mutant")
                days = [d for d in candidate_days(rng, m, 3) if clean_cut(m, d)]
                if days:
                    _observe(ctx, ip, m, sched, False, days[0].isoformat(), "mutant-to-date")
                last = max(parse_ts(r["ts"]).date() for r in m["rows"])
                _observe(ctx, ip, m, sched, False, None, "mutant-from-date", from_s=rng.choice((last, last + timedelta(days=1), last - timedelta(days=200))).isoformat())
        else:
            ctx.count("generated_invalid")
        if index % 6 == 0:
            # a disposal at exactly the instant of the transfer that funds its account (day-granular exports): accepted
            from rpv import families

            hist = families.same_instant_transfer_then_sale(rng)
            if is_valid(Model(hist)):
                for allow in (False, True):
                    _observe(ctx, ip, hist, {1970: rng.choice(METHODS)}, allow, None, "same-instant-transfer-then-sale")
                ctx.count("same_instant_transfer_then_sale_cases")
        if index % 6 == 3:
            # legs of one on-chain transaction at one instant: the verdict is a function of the coin flows, not of the unique ids
            from rpv import families

            chain = families.same_instant_transfer_chain(rng)
            distinct_ids = copy.deepcopy(chain)
            for k, r in enumerate(distinct_ids["rows"]):
                if r["t"] == "INTRA":
                    r["uid"] = f"{r['uid']}-{k}"
            sched = {1970: rng.choice(METHODS)}
            a, b = ip.run(chain, sched), ip.run(distinct_ids, sched)
            ctx.count("executions", 2)
            ctx.count("unique_id_independence_pairs")
            if a.ok != b.ok:
                ctx.violation("overdraft.verdict-depends-on-unique-ids", {"same_ids": "accepted" if a.ok else a.error[:160], "distinct_ids": "accepted" if b.ok else b.error[:160]}, {"hist": chain, "schedule": sched_json(sched), "allow_negative": False, "to": None, "from": None, "kind": "same-instant-chain"})
        index += ctx.nshards
        done += 1
    ctx.count("inputs", done)
    try:
        from rpv.checks import cli_slices
    except ImportError:
        return
    cli_slices.c08(ctx, settings["cli_cases"])


def replay(ctx: Any, case: Dict[str, Any]) -> None:
    if case.get("cli"):
        from rpv.checks import cli_slices

        cli_slices.c08_replay(ctx, case)
        return
    if case.get("kind") == "same-instant-chain":
        ip = get_ip(ctx)
        distinct_ids = copy.deepcopy(case["hist"])
        for k, r in enumerate(distinct_ids["rows"]):
            if r["t"] == "INTRA":
                r["uid"] = f"{r['uid']}-{k}"
        a, b = ip.run(case["hist"], sched_from_json(case["schedule"])), ip.run(distinct_ids, sched_from_json(case["schedule"]))
        if a.ok != b.ok:
            ctx.violation("overdraft.verdict-depends-on-unique-ids", {"same_ids": "accepted" if a.ok else a.error[:160], "distinct_ids": "accepted" if b.ok else b.error[:160]}, case)
        return
    _observe(ctx, get_ip(ctx), case["hist"], sched_from_json(case["schedule"]), case["allow_negative"], case["to"], case.get("kind", "replay"), from_s=case.get("from"))


def coverage(merged: Dict[str, Any], tier: str) -> Dict[str, Any]:
    c = merged["counters"]
    return {
        "evaluations": c.get("executions", 0),
        "distinct_nontrivial": len(merged["sets"].get("nontrivial", ())),
        "events_checked": {
            "must_reject_runs": c.get("must_reject_runs", 0),
            "must_accept_runs": c.get("must_accept_runs", 0),
            "unspecified_runs": c.get("unspecified_runs", 0),
            "runs_with_-n": c.get("with_n_runs", 0),
            "runs_with_a_from_date": c.get("runs_with_from_date", 0),
            "negative_balances_reported_with_-n": c.get("with_n_negative_reported", 0),
            "rejections_naming_an_overdrawn_account": c.get("rejections_naming_an_overdrawn_account", 0),
            "cli_runs": c.get("cli_runs", 0),
            "dust_then_real_overdraft_runs": c.get("dust_then_real_overdraft_runs", 0),
            "cli_runs_with_in_fee_overdraft": c.get("cli_runs_with_in_fee_overdraft", 0),
        },
        "oracle_verdicts_by_kind": sorted(merged["sets"].get("tag_kind", ())),
    }
