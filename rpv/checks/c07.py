"""C07 - account balances equal the flows of each account and reconcile with unsold lots.

Conservation checker: ComputedData.balance_set of real compute_tax runs vs per-account sums over the input rows, and the
sum of final balances vs the amount the observed fraction trace leaves unconsumed in lots.
"""

from __future__ import annotations

import copy
from datetime import date
from decimal import Decimal
from fractions import Fraction
from typing import Any, Dict, List, Optional

from rpv import families
from rpv.checks.inproc_util import candidate_days, clean_cut, get_ip, sched_from_json, sched_json
from rpv.gen import METHODS, Profile, dstr, history, q11
from rpv.model import Model
from rpv.workload import deepen
from rpv.oracle.balance import check_balances, is_valid, overdraft
from rpv.oracle.trace import consumed_per_lot

PROPERTY_ID = "C07"
LEVEL = "exploration"
RULE = (
    "valid generated histories over 2-4 exchanges and 1-2 holders (joint filing), self transfers, transfers into "
    "never-funded accounts, batched withdrawals (2-4 transfers between the same two accounts under one unique id), x {no to-date, to-dates} x {-n off, -n on: for a valid history it changes nothing} x from-dates (never change balances) x methods; plus overdrawn mutants run with -n, with and without a to-date. Reported acquired / "
    "sent / received / final vs exact sums over the input rows, and sum of finals vs lots minus consumption in the observed "
    "trace. Non-trivial = >= 3 accounts touched and >= 1 transfer; distinct = hash of (history, to-date, -n). "
    "The repository's own example inputs (input/*.ods read independently of RP2's parser, every method and the config's schedule, -n) are part of the workload"
)
ASSUMPTIONS = [
    "sent = outgoing amount + crypto fee, whatever an exchange-supplied crypto_out_with_fee says (one profile supplies rounded totals; the lots follow that cell, so the reconciliation with the lots is only asserted where the two agree)",
    "to-dates are only used where own-date order and instant order agree across the cut (KF1 region excluded)",
    "with -n the lots must still cover the disposals (otherwise the run fails: C02), so -n mutants overdraw one account while another holds the coins",
]
SETTINGS: Dict[str, Dict[str, Any]] = {
    "quick": {"cases": 2000, "cli_cases": 48, "budget_s": 45, "minimums": {"corpus_runs": 100, "to_date_runs_with_negative_balances_allowed": 500, "accounts_checked": 8000, "nontrivial": 800, "negative_runs": 100, "cli_runs": 5, "histories_with_transfers_repeating_a_unique_id": 60, "runs_with_an_exchange_supplied_total_that_differs_from_amount_plus_fee": 150}},
    "thorough": {"cases": 80000, "cli_cases": 150, "budget_s": 300, "minimums": {"corpus_runs": 100, "accounts_checked": 180000, "nontrivial": 18000, "negative_runs": 2400, "cli_runs": 60, "histories_with_transfers_repeating_a_unique_id": 2400, "runs_with_an_exchange_supplied_total_that_differs_from_amount_plus_fee": 3600}},
}
PROFILES = [
    Profile(n_exchanges=2, n_holders=2, p_intra=0.35, p_self_transfer=0.1, max_events=20, min_events=5),
    Profile(n_exchanges=4, n_holders=1, p_intra=0.4, max_events=22, min_events=5),
    Profile(n_exchanges=3, n_holders=2, p_intra=0.3, tie_prob=0.4, mixed_tz=True, max_events=20, min_events=5),
    Profile(n_exchanges=2, n_holders=2, p_intra=0.3, amount_style="dec11", max_events=26, min_events=8),
    # buy and hold: an asset without a single taxable event
    Profile(n_exchanges=3, n_holders=2, max_events=12, min_events=4, p_in=0.6, p_out=0.0, p_intra=0.4, p_earn=0.0, p_intra_fee=0.0),
    # exchange-supplied totals (crypto_out_with_fee), half of them the exchange's own rounded figure: what leaves the account is
    # amount + fee whatever that cell says (the lots follow the cell, so the reconciliation clause is skipped for these)
    Profile(n_exchanges=3, n_holders=1, p_intra=0.25, p_optional_fiat=0.8, p_rounded_out_total=0.5, out_types=("SELL", "FEE", "FEE", "GIFT"), max_events=18, min_events=6),
]


def misplaced_debit(hist: Dict[str, Any], rng: Any) -> Optional[Dict[str, Any]]:
    """Move one out-row to another account (the coins exist, but elsewhere): overdraws that account, lots still cover."""
    h = copy.deepcopy(hist)
    outs = [r for r in h["rows"] if r["t"] == "OUT"]
    accounts = [(e, ho) for e in h["exchanges"] for ho in h["holders"]]
    if not outs or len(accounts) < 2:
        return None
    r = rng.choice(outs)
    others = [a for a in accounts if a != (r["ex"], r["ho"])]
    r["ex"], r["ho"] = rng.choice(others)
    return h


def _observe(ctx: Any, ip: Any, hist: Dict[str, Any], sched: Dict[int, str], to_s: Optional[str], allow_negative: bool, from_s: Optional[str] = None) -> None:
    from rpv.drive_inproc import balances_of, trace_of

    model = Model(hist)
    to_d = date.fromisoformat(to_s) if to_s else None
    from_d = date.fromisoformat(from_s) if from_s else None
    res = ip.run(hist, sched, from_date=from_d, to_date=to_d, allow_negative=allow_negative)
    ctx.count("executions")
    ctx.count("valid_cases")
    case = {"hist": hist, "schedule": sched_json(sched), "to": to_s, "from": from_s, "allow_negative": allow_negative}
    if not res.ok:
        ctx.count("unobservable")
        ctx.tag("tag_unobservable", res.error[:80])
        return
    observed = balances_of(res.computed)
    violations = check_balances(model, observed, to_d)
    ctx.count("accounts_checked", len(observed))
    if allow_negative:
        ctx.count("negative_runs")
        if any(b[5] < 0 for b in observed):
            ctx.count("negative_balances_reported")
    # reconciliation with the lots: the trace of this very run (filtered to <= to-date, from the beginning since no from-date)
    trace = trace_of(res.computed)
    consumed = consumed_per_lot(trace)
    lots_total = sum((lot.amount for lot in model.lots.values() if to_d is None or lot.ts.date() <= to_d), Fraction(0))
    unconsumed = lots_total - sum(consumed.values(), Fraction(0))
    finals = sum((b[5] for b in observed), Fraction(0))
    # (with a from-date the run's own trace hides the earlier fractions: the equations above still apply, this clause needs all fractions)
    stale_totals = any(r["t"] == "OUT" and r.get("cout_wf") and Fraction(r["cout_wf"]) != Fraction(r["cout"]) + Fraction(r["cfee"]) for r in hist["rows"])
    if stale_totals:
        ctx.count("runs_with_an_exchange_supplied_total_that_differs_from_amount_plus_fee")
    if from_d is None and not stale_totals and finals != unconsumed:
        violations.append({"rule": "balance.reconciliation-with-lots", "detail": {"sum_final_balances": str(finals), "unconsumed_in_lots": str(unconsumed)}})
    ctx.count("reconciliations")
    ctx.tag("tag_shape", f"from={'y' if from_d else 'n'},to={'y' if to_d else 'n'},n={'y' if allow_negative else 'n'}")
    if to_d and allow_negative:
        ctx.count("to_date_runs_with_negative_balances_allowed")
    if len(observed) >= 3 and any(r["t"] == "INTRA" for r in hist["rows"]):
        ctx.distinct("nontrivial", case)
        ctx.sample({"n_rows": len(hist["rows"]), "to": to_s, "balances": [[b[0], b[1]] + [float(x) for x in b[2:]] for b in observed]})
    for v in violations:
        ctx.violation(v["rule"], v["detail"], case)


def run_shard(ctx: Any) -> None:
    from rpv.checks import corpus_slice

    corpus_slice.run(ctx, PROPERTY_ID)  # the repository's own example inputs, every method and the config's schedule
    ip = get_ip(ctx)
    settings = SETTINGS[ctx.tier]
    share = ctx.share(settings["cases"])
    index = ctx.shard
    done = 0
    while done < share and (ctx.budget_s - ctx.time_left()) < ctx.budget_s * 0.75:
        rng = ctx.rng("case", index)
        hist = history(rng, deepen(ctx, index, PROFILES[index % len(PROFILES)]))
        if index % 16 == 9:
            hist = families.batched_transfers(rng)
            ctx.count("histories_with_transfers_repeating_a_unique_id")
        elif index % 4 == 1 and families.share_transfer_ids(hist, rng):
            # batched withdrawals: several transfers between the same two accounts carry one transaction hash
            ctx.count("histories_with_transfers_repeating_a_unique_id")
        if is_valid(Model(hist)):
            sched = {1970: rng.choice(METHODS)}
            _observe(ctx, ip, hist, sched, None, rng.random() < 0.2)
            days = candidate_days(rng, hist, 4)
            clean = [d for d in days if clean_cut(hist, d)]
            # for a valid history -n changes nothing, and a from-date never changes balances
            for k, d in enumerate(clean[:2]):
                _observe(ctx, ip, hist, sched, d.isoformat(), k == 1 or rng.random() < 0.3, from_s=rng.choice([x for x in days if x <= d] or [d]).isoformat() if rng.random() < 0.3 else None)
            if days and rng.random() < 0.5:
                _observe(ctx, ip, hist, sched, None, rng.random() < 0.3, from_s=rng.choice(days).isoformat())
            mutant = misplaced_debit(hist, rng)
            if mutant is not None and Model(mutant).overspend_instant() is None:
                _observe(ctx, ip, mutant, sched, None, True)
                mdays = [d for d in candidate_days(rng, mutant, 3) if clean_cut(mutant, d)]
                if mdays:
                    _observe(ctx, ip, mutant, sched, mdays[0].isoformat(), True)
        else:
            ctx.count("generated_invalid")
        index += ctx.nshards
        done += 1
    ctx.count("inputs", done)
    try:
        from rpv.checks import cli_slices
    except ImportError:
        return
    cli_slices.c07(ctx, settings["cli_cases"])


def replay(ctx: Any, case: Dict[str, Any]) -> None:
    if case.get("corpus"):
        from rpv.checks import corpus_slice

        corpus_slice.replay(ctx, PROPERTY_ID, case)
        return
    if case.get("cli"):
        from rpv.checks import cli_slices

        cli_slices.c07_replay(ctx, case)
        return
    _observe(ctx, get_ip(ctx), case["hist"], sched_from_json(case["schedule"]), case["to"], case["allow_negative"], from_s=case.get("from"))


def coverage(merged: Dict[str, Any], tier: str) -> Dict[str, Any]:
    c = merged["counters"]
    return {
        "evaluations": c.get("executions", 0),
        "distinct_nontrivial": len(merged["sets"].get("nontrivial", ())),
        "events_checked": {
            "account_lines": c.get("accounts_checked", 0),
            "reconciliations_with_lots": c.get("reconciliations", 0),
            "runs_with_-n": c.get("negative_runs", 0),
            "runs_reporting_a_negative_balance": c.get("negative_balances_reported", 0),
            "cli_runs": c.get("cli_runs", 0),
            "histories_with_transfers_repeating_a_unique_id": c.get("histories_with_transfers_repeating_a_unique_id", 0),
        },
    }
