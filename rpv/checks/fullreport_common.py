"""Workload and plumbing shared by C13 (read-back of the full report) and C19 (hyperlinks)."""

from __future__ import annotations

import copy
import random
from datetime import date, timedelta
from typing import Any, Dict, List, Optional, Tuple

from rpv.checks.inproc_util import candidate_days, clean_cut, inverted_pair_days, offset_sensitive_days
from rpv.cli_core import LONG_ASSET, add_dust_account, cli_histories, cli_profile, generator_crash, method_choice, rename_asset
from rpv.drive_cli import COUNTRY_LANGUAGES, Workspace
from rpv.expected import Expected
from rpv.gen import assign_rows, parse_ts
from rpv.oracle.fullreport import Stats, check_full_report, check_links
from rpv.oracle.reports import FullReport


def make_case(rng: random.Random, hostile_rows: bool = False) -> Dict[str, Any]:
    n_assets = rng.choice((1, 2, 2, 3))
    profile = cli_profile(
        max_events=rng.choice((8, 12, 18)),
        min_events=4,
        gap_style=rng.choice(("medium", "long", "mixed", "short")),
        tie_prob=rng.choice((0.0, 0.15)),
        p_earn=rng.choice((0.3, 0.5)),
        shuffle_rows=True,
        mixed_tz=rng.random() < 0.35,
        p_optional_fiat=rng.choice((0.15, 0.15, 0.5)),
        p_rounded_out_total=0.6,
    )
    hists = cli_histories(rng, n_assets, profile)
    shape = rng.random()
    if shape < 0.1:
        # an account left with a non-zero balance below 1e-10 (cli_histories itself does this now and then as well)
        add_dust_account(rng, hists[rng.choice(sorted(hists))])
    elif shape < 0.2 and LONG_ASSET not in hists:
        # an asset whose name is long (sheet names "<asset> In-Out" / "<asset> Tax" exceed 31 characters)
        hists = rename_asset(hists, sorted(hists)[-1], LONG_ASSET)
    country = rng.choice(("us", "us", "generic", "es", "ie", "jp"))
    language = rng.choice(COUNTRY_LANGUAGES[country])
    args, ini_methods, sched, _ = method_choice(rng, country, hists)
    args = args + ["-g", language]
    # window: none / to / from / from+to, bounds on, next to and between transaction dates
    all_days = sorted({d for h in hists.values() for d in candidate_days(rng, h, 6)})
    clean = [d for d in all_days if all(clean_cut(h, d) for h in hists.values())]
    pick = rng.random()
    from_s: Optional[str] = None
    to_s: Optional[str] = None
    special = sorted({d for h in hists.values() for d in inverted_pair_days(h) + offset_sensitive_days(h)})
    if special and rng.random() < 0.4:
        # a from-date on the own date of a row whose own-date order against its neighbour in time is inverted, or whose own
        # and UTC dates differ (the shown rows are defined by own dates; lower bounds do not meet KF1)
        from_s = rng.choice(special).isoformat()
        later = [d for d in clean if d.isoformat() >= from_s]
        if later and country != "jp" and rng.random() < 0.3:
            to_s = rng.choice(later).isoformat()
    elif country == "jp":
        # KF3: the JP tax report refuses -f together with -t
        if pick < 0.35 and all_days:
            from_s = rng.choice(all_days).isoformat()
        elif pick < 0.6 and clean:
            to_s = rng.choice(clean).isoformat()
    elif pick < 0.25:
        pass
    elif pick < 0.45 and clean:
        to_s = rng.choice(clean).isoformat()
    elif pick < 0.65 and all_days:
        from_s = rng.choice(all_days).isoformat()
    elif clean:
        to_d = rng.choice(clean)
        lower = [d for d in all_days if d <= to_d]
        from_s = (rng.choice(lower) if lower else to_d).isoformat()
        to_s = to_d.isoformat()
    return {
        "hists": hists,
        "country": country,
        "language": language,
        "args": args,
        "ini_methods": {str(k): v for k, v in (ini_methods or {}).items()},
        "schedule": {str(k): v for k, v in sched.items()},
        "from": from_s,
        "to": to_s,
    }


def corpus_case(rng: random.Random, index: int) -> Optional[Dict[str, Any]]:
    """One of the repository's own example inputs (read by rpv.corpus, unique ids added, written back through the ordinary
    writer), run with -n because most of them overdraw an account."""
    from rpv import corpus
    from rpv.gen import METHODS

    entries = corpus.corpus()
    if not entries:
        return None
    entry = entries[index % len(entries)]
    hists = copy.deepcopy(entry["hists"])
    country = rng.choice(("us", "us", "generic", "ie", "jp"))
    language = rng.choice(COUNTRY_LANGUAGES[country])
    ini_methods: Dict[int, str] = {}
    if entry["methods"] and country in ("us", "generic"):
        ini_methods = dict(entry["methods"])
        ini_methods.setdefault(1970, ini_methods[min(ini_methods)])
        sched, args = dict(ini_methods), []
    else:
        method = rng.choice(METHODS) if country in ("us", "generic") else "fifo"
        sched, args = {1970: method}, ["-m", method]
    from_s = to_s = None
    days = sorted({parse_ts(r["ts"]).date() for h in hists.values() for r in h["rows"]})
    clean = [d for d in days if all(clean_cut(h, d) for h in hists.values())]
    pick = rng.random()
    if pick < 0.3:
        from_s = rng.choice(days).isoformat()
    elif pick < 0.5 and clean and country != "jp":
        to_s = rng.choice(clean).isoformat()
    return {"corpus": entry["name"], "hists": hists, "country": country, "language": language, "args": args + ["-g", language, "-n"], "ini_methods": {str(k): v for k, v in ini_methods.items()}, "schedule": {str(k): v for k, v in sched.items()}, "from": from_s, "to": to_s}


def run_case(ctx: Any, expected: Expected, case: Dict[str, Any], name: str, what: str) -> Optional[Tuple[Stats, List[Dict[str, Any]]]]:
    """what: 'content' (C13) or 'links' (C19). Returns None when the run was not observable."""
    if "-n" not in case["args"]:
        from rpv.model import Model
        from rpv.oracle.balance import is_valid

        if not all(is_valid(Model(h)) for h in case["hists"].values()):
            # a directed family produced a history that overdraws an account or overspends its lots: not a valid input
            ctx.count("generated_invalid")
            return None
    ws = Workspace(ctx.scratch, name)
    try:
        hists = copy.deepcopy(case["hists"])
        ini_methods = {int(k): v for k, v in case["ini_methods"].items()} or None
        ws.write(hists, accounting_methods=ini_methods, layout=case.get("layout"))
        window_args = (["-f", case["from"]] if case.get("from") else []) + (["-t", case["to"]] if case.get("to") else [])
        warmup = None
        if case.get("warm"):
            # the report under test is the second one written by its interpreter: the first run processed the same files with
            # another window (none, or from the middle of the history on), so its sheets were laid out differently
            days = sorted({str(r["ts"])[:10] for h in hists.values() for r in h["rows"]})
            other_window = [] if window_args else ["-f", days[len(days) // 2]]
            warmup = [list(case["args"]) + other_window + ["-o", ws.new_out(), ws.ini, ws.ods]]
            ctx.count("reports_written_second_in_one_interpreter")
        res = ws.run(case["country"], case["args"] + window_args, audit=False, warmup=warmup)
        ctx.count("executions")
        ctx.count("cli_runs")
        if res.exit != 0:
            crash = generator_crash(res.stderr, "rp2_full_report.py")
            if crash:
                ctx.violation("fullreport.generator-crashed", {"error": crash}, case)
                return None
            # the input and the options are valid by construction and the report this property is about was not produced
            ctx.violation("fullreport.run-failed-on-valid-input", {"exit": res.exit, "error": res.stderr.strip().splitlines()[-1][:200] if res.stderr.strip() else ""}, case)
            return None
        path = res.report("rp2_full_report")
        if not path:
            ctx.violation("fullreport.file-missing", {"files": res.files}, case)
            return None
        report = FullReport(path, case["language"])
        from_d = date.fromisoformat(case["from"]) if case.get("from") else None
        to_d = date.fromisoformat(case["to"]) if case.get("to") else None
        stats = Stats()
        if what == "links":
            violations = check_links(report, hists, from_d, to_d, stats)
        else:
            sched = {int(k): v for k, v in case["schedule"].items()}
            schedule_arg = None if ini_methods else sched
            negative = "-n" in case["args"]
            computed = expected.compute(ws.ini, ws.ods, case["country"], schedule_arg, from_d, to_d, allow_negative=negative)
            computed_to = expected.compute(ws.ini, ws.ods, case["country"], schedule_arg, None, to_d, allow_negative=negative) if from_d else computed
            violations = check_full_report(report, hists, computed, computed_to, sched, from_d, to_d, stats)
            # the reference views themselves are tied to the input side: the from/to view holds exactly the to-date view's
            # fractions whose event's own date is on or after the from-date, and (clean cuts) the to-date view holds exactly
            # the unfiltered fractions dated up to the to-date
            def keys(cd: Any, lower: Optional[date] = None, upper: Optional[date] = None) -> List[Tuple[Any, ...]]:
                return [
                    (g.taxable_event.unique_id, type(g.taxable_event).__name__, g.acquired_lot.unique_id if g.acquired_lot is not None else "", str(g.crypto_amount))
                    for g in cd.gain_loss_set
                    if (lower is None or g.taxable_event.timestamp.date() >= lower) and (upper is None or g.taxable_event.timestamp.date() <= upper)
                ]

            for asset in sorted(hists):
                if from_d is not None and keys(computed[asset]) != keys(computed_to[asset], lower=from_d):
                    violations.append({"rule": "fullreport.window-view-is-not-the-to-date-view-from-the-from-date-on", "detail": {"asset": asset, "in_view": len(keys(computed[asset])), "expected": len(keys(computed_to[asset], lower=from_d))}})
            if to_d is not None and all(clean_cut(h, to_d) for h in hists.values()):
                unfiltered = expected.compute(ws.ini, ws.ods, case["country"], schedule_arg, None, None, allow_negative=negative)
                for asset in sorted(hists):
                    if keys(computed_to[asset]) != keys(unfiltered[asset], upper=to_d):
                        violations.append({"rule": "fullreport.to-date-view-is-not-the-history-up-to-the-to-date", "detail": {"asset": asset, "in_view": len(keys(computed_to[asset])), "expected": len(keys(unfiltered[asset], upper=to_d))}})
        for p in report.problems:
            violations.append({"rule": "fullreport.structure", "detail": {"problem": p}})
        return stats, violations
    finally:
        ws.cleanup()
