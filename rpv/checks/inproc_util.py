"""Helpers shared by the in-process checks."""

from __future__ import annotations

import random
from datetime import date, timedelta, timezone
from typing import Any, Dict, List, Optional, Tuple

from rpv.gen import ASSETS, EXCHANGES, HOLDERS, parse_ts


def get_ip(ctx: Any) -> Any:
    from rpv.drive_inproc import InProc

    return InProc(ctx.scratch, EXCHANGES, HOLDERS, ASSETS)


def sched_json(sched: Dict[int, str]) -> Dict[str, str]:
    return {str(k): v for k, v in sched.items()}


def sched_from_json(data: Dict[str, str]) -> Dict[int, str]:
    return {int(k): v for k, v in data.items()}


def clean_cut(hist: Dict[str, Any], day: date) -> bool:
    """True when own-date order and instant order agree across the cut at `day`: no row dated after `day` happens at or
    before the instant of a row dated on or before `day`. (Otherwise "up to the to-date" is itself ambiguous: KF1.)"""
    inside = [parse_ts(r["ts"]) for r in hist["rows"] if parse_ts(r["ts"]).date() <= day]
    outside = [parse_ts(r["ts"]) for r in hist["rows"] if parse_ts(r["ts"]).date() > day]
    if not inside or not outside:
        return True
    return max(t.astimezone(timezone.utc) for t in inside) < min(t.astimezone(timezone.utc) for t in outside)


def candidate_days(rng: random.Random, hist: Dict[str, Any], n: int) -> List[date]:
    """Days on, one day before / after and between transaction dates, 1 January, 1 July, before the first and after the last."""
    days = sorted({parse_ts(r["ts"]).date() for r in hist["rows"]})
    pool = set()
    for d in days:
        pool.update((d, d - timedelta(days=1), d + timedelta(days=1)))
        pool.add(date(d.year, 1, 1))
        pool.add(date(d.year, 7, 1))
        pool.add(date(d.year, 12, 31))
    for a, b in zip(days, days[1:]):
        if (b - a).days > 2:
            pool.add(a + (b - a) / 2)
    pool.add(days[0] - timedelta(days=400))
    pool.add(days[-1] + timedelta(days=400))
    pool = {d for d in pool if d.year >= 1971}
    ordered = sorted(pool)
    rng.shuffle(ordered)
    return ordered[:n]


def offset_sensitive_days(hist: Dict[str, Any]) -> List[date]:
    """Own dates (and UTC dates) of the rows whose own calendar date differs from their UTC date: a window bound on such a
    day separates code that compares own dates from code that compares UTC instants."""
    days = set()
    for r in hist["rows"]:
        ts = parse_ts(r["ts"])
        utc_day = ts.astimezone(timezone.utc).date()
        if ts.date() != utc_day:
            days.update((ts.date(), utc_day))
    return sorted(days)


def inverted_pair_days(hist: Dict[str, Any]) -> List[date]:
    """Own dates of consecutive (in instant order) rows whose own-date order is the reverse of their instant order."""
    ordered = sorted((parse_ts(r["ts"]) for r in hist["rows"]), key=lambda t: t.astimezone(timezone.utc))
    days = set()
    for a, b in zip(ordered, ordered[1:]):
        if a.date() > b.date():
            days.update((a.date(), b.date()))
    return sorted(days)
