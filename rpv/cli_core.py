"""Shared pieces of the CLI-driven checks: workload for real rp2_<country> runs and decoding of the reports into the
same record types the in-process oracles use."""

from __future__ import annotations

import random
from datetime import datetime
from fractions import Fraction
from typing import Any, Dict, List, Optional, Sequence, Tuple

from dateutil.parser import parse as parse_datetime

from rpv.drive_cli import COUNTRY_METHODS, Workspace
from rpv.drive_inproc import Fraction_
from rpv.gen import ASSETS, METHODS, Profile, history, own_years, schedule
from rpv.model import Model
from rpv.oracle.balance import is_valid
from rpv.oracle.reports import FullReport, num, snap, split_dir_type


def cli_profile(**kw: Any) -> Profile:
    base = dict(amount_style="cli", max_sig_digits=15, allow_in_crypto_fee=True, price_style="small", max_events=12, min_events=3, n_exchanges=2, n_holders=2, p_optional_fiat=0.15)
    base.update(kw)
    return Profile(**base)


def cli_histories(rng: random.Random, n_assets: int = 1, profile: Optional[Profile] = None, tries: int = 20) -> Dict[str, Dict[str, Any]]:
    """Valid histories for 1-3 assets that share exchanges, holders and (after writing) sheet row numbers."""
    result: Dict[str, Dict[str, Any]] = {}
    for asset in ASSETS[:n_assets]:
        for _ in range(tries):
            hist = history(rng, profile or cli_profile(), asset=asset)
            if is_valid(Model(hist)):
                result[asset] = hist
                break
        else:
            raise RuntimeError("could not generate a valid history")
    return result


def method_choice(rng: random.Random, country: str, hists: Dict[str, Dict[str, Any]]) -> Tuple[List[str], Optional[Dict[int, str]], Dict[int, str], str]:
    """Pick how the method is given: -m, [accounting_methods] in the config, or the country default.
    Returns (cli args, accounting_methods for the ini, effective schedule, file-name prefix word)."""
    methods = COUNTRY_METHODS[country]
    pick = rng.random()
    if pick < 0.5:
        m = rng.choice(methods)
        return ["-m", m], None, {1970: m}, m
    if pick < 0.8 and len(methods) > 1:
        years = sorted({y for h in hists.values() for y in own_years(h)})
        sched = schedule(rng, years[0], years[-1])
        # a schedule must start at 1970 when it has a single entry (legend lookup), and the config keys are years
        if len(sched) == 1:
            sched = {1970: next(iter(sched.values()))}
        name = sched[1970] if len(sched) == 1 else "mixed"
        return [], sched, sched, name
    return [], None, {1970: "fifo"}, "fifo"


def decode_trace(report: FullReport, asset: str, model: Model) -> Tuple[List[Fraction_], List[str]]:
    """Gain / Loss Detail rows -> Fraction_ records (amounts snapped to 11 decimals, ids through the unique ids)."""
    problems: List[str] = []
    event_of: Dict[Tuple[str, str], int] = {}
    for row, event in model.events.items():
        key = (event.uid, event.table)
        if key in event_of:
            problems.append(f"ambiguous event key {key}")
        event_of[key] = row
    lot_of = {lot.uid: row for row, lot in model.lots.items()}
    long_word = report._("LONG")
    short_word = report._("SHORT")
    trace: List[Fraction_] = []
    for d in report.detail_rows(asset):
        direction, ttype = split_dir_type(d["event_dir_type"])
        event_row = event_of.get((str(d["event_uid"]), direction))
        if event_row is None:
            problems.append(f"detail row {d['sheet_row']}: unknown event uid={d['event_uid']!r} dir={direction!r}")
            continue
        lot_row = None
        if d["lot_uid"] not in (None, ""):
            lot_row = lot_of.get(str(d["lot_uid"]))
            if lot_row is None:
                problems.append(f"detail row {d['sheet_row']}: unknown lot uid={d['lot_uid']!r}")
                continue
        if d["kind"] not in (long_word, short_word):
            problems.append(f"detail row {d['sheet_row']}: capital gains type {d['kind']!r}")
        event = model.events[event_row]
        trace.append(
            Fraction_(
                event_row,
                lot_row,
                snap(d["amount"]) or Fraction(0),
                num(d["proceeds"]) or Fraction(0),
                num(d["cost"]) or Fraction(0),
                num(d["gain"]) or Fraction(0),
                d["kind"] == long_word,
                event.ts,
                english_type(report, ttype),
                direction,
            )
        )
    return trace, problems


def parse_report_ts(text: Any) -> Optional[datetime]:
    if isinstance(text, datetime):
        return text
    if not isinstance(text, str) or not text:
        return None
    try:
        return parse_datetime(text)
    except (ValueError, OverflowError):
        return None


def english_type(report: FullReport, translated: str) -> str:
    """Transaction type words are translated in the full report: map back to the English upper-case word."""
    for word in ("airdrop", "buy", "donate", "fee", "gift", "hardfork", "income", "interest", "lost", "mining", "move", "sell", "staking", "wages"):
        if report._(word).upper() == translated:
            return word.upper()
    return translated


def generator_crash(stderr: str, generator_file: str) -> str:
    """Last frame line + error of a traceback that passes through the given report generator file ('' if none)."""
    if "Traceback (most recent call last)" not in stderr or generator_file not in stderr:
        return ""
    lines = [line for line in stderr.strip().splitlines() if line.strip()]
    return lines[-1][:200]
