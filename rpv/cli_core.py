"""Shared pieces of the CLI-driven checks: workload for real rp2_<country> runs and decoding of the reports into the
same record types the in-process oracles use."""

from __future__ import annotations

import copy
import random
from datetime import datetime
from fractions import Fraction
from typing import Any, Dict, List, Optional, Sequence, Tuple

from dateutil.parser import parse as parse_datetime

from rpv.drive_cli import COUNTRY_METHODS, Workspace
from rpv.drive_inproc import Fraction_
from rpv.gen import ASSETS, EXCHANGES, METHODS, Profile, history, own_years, schedule
from rpv.model import Model
from rpv.oracle.balance import is_valid
from rpv.oracle.reports import FullReport, num, snap, split_dir_type


def cli_profile(**kw: Any) -> Profile:
    base = dict(amount_style="cli", max_sig_digits=15, allow_in_crypto_fee=True, price_style="small", max_events=12, min_events=3, n_exchanges=3, n_holders=2, p_optional_fiat=0.15)
    base.update(kw)
    return Profile(**base)


def cli_histories(rng: random.Random, n_assets: int = 1, profile: Optional[Profile] = None, tries: int = 20) -> Dict[str, Dict[str, Any]]:
    """Valid histories for 1-3 assets that share exchanges, holders and (after writing) sheet row numbers."""
    result: Dict[str, Dict[str, Any]] = {}
    for asset in ASSETS[:n_assets]:
        for _ in range(tries):
            hist = history(rng, profile or cli_profile(), asset=asset)
            if is_valid(Model(hist)):
                result[asset] = hist
                break
        else:
            raise RuntimeError("could not generate a valid history")
    # shapes every CLI workload sees now and then: an account left with a dust balance, an asset with a long name
    shape = rng.random()
    if shape < 0.08:
        add_dust_account(rng, result[rng.choice(sorted(result))])
    elif shape < 0.16:
        result = rename_asset(result, sorted(result)[-1], LONG_ASSET)
    return result


LONG_ASSET = "LONGNAMEDASSET1234567890XYZW"  # 28 characters: longer than the 31-character sheet-name habit of other spreadsheet formats allows once " In-Out" is appended


def rename_asset(hists: Dict[str, Dict[str, Any]], old: str, new: str) -> Dict[str, Dict[str, Any]]:
    """Same histories with one asset under another name (unique ids are kept)."""
    out: Dict[str, Dict[str, Any]] = {}
    for asset, hist in hists.items():
        if asset == old:
            out[new] = dict(hist, asset=new)
        else:
            out[asset] = hist
    return out


def add_dust_account(rng: random.Random, hist: Dict[str, Any]) -> None:
    """Append a purchase and a slightly smaller sale on an otherwise unused account, leaving it a final balance of 1e-11 ..
    4e-11 (non-zero, but below the 1e-10 tolerance RP2 uses for negative-balance checks)."""
    from datetime import timedelta
    from decimal import Decimal

    from rpv.gen import dstr, fmt_ts, parse_ts

    exchange = EXCHANGES[3]
    if exchange not in hist["exchanges"]:
        hist["exchanges"] = list(hist["exchanges"]) + [exchange]
    holder = rng.choice(hist["holders"])
    if any((r.get("ex"), r.get("ho")) == (exchange, holder) or (r.get("fex"), r.get("fho")) == (exchange, holder) or (r.get("tex"), r.get("tho")) == (exchange, holder) for r in hist["rows"]):
        return
    last = max(parse_ts(r["ts"]) for r in hist["rows"])
    base = Decimal(rng.choice(("0.5", "1", "0.125", "2")))
    dust = Decimal(rng.randint(1, 4)) / Decimal(10**11)
    next_row = max(r["row"] for r in hist["rows"]) + 1
    n_in = sum(1 for r in hist["rows"] if r["t"] == "IN") + 1
    n_out = sum(1 for r in hist["rows"] if r["t"] == "OUT") + 1
    hist["rows"].append({"t": "IN", "row": next_row, "ts": fmt_ts(last + timedelta(days=1), 0), "ex": exchange, "ho": holder, "type": "BUY", "spot": "100", "cin": dstr(base + dust), "cfee": None, "fin_nf": None, "fin_wf": None, "ffee": None, "uid": f"{hist['asset']}-IN-dust{n_in}", "notes": ""})
    hist["rows"].append({"t": "OUT", "row": next_row + 1, "ts": fmt_ts(last + timedelta(days=2), 0), "ex": exchange, "ho": holder, "type": "SELL", "spot": "110", "cout": dstr(base), "cfee": "0", "cout_wf": None, "fout_nf": None, "ffee": None, "uid": f"{hist['asset']}-OUT-dust{n_out}", "notes": ""})


def add_verbatim_duplicate(rng: random.Random, hist: Dict[str, Any], tables: Tuple[str, ...] = ("IN",)) -> Optional[Dict[str, Any]]:
    """Insert, right below one row, a second row equal to it in every cell - timestamp, amounts, unique id, notes (interest paid
    twice in one second, an order filled in two equal parts that the export reports under one id, a withdrawal batched in equal
    parts): both are transactions. Out- and transfer rows are only repeated when the history stays valid. Returns the new row."""
    from rpv.oracle.balance import is_valid

    for _ in range(4):
        candidates = [r for r in hist["rows"] if r["t"] in tables]
        if not candidates:
            return None
        original = rng.choice(candidates)
        twin = copy.deepcopy(original)
        twin["row"] = original["row"] + 0.5  # the writer orders by this key and then stores the real sheet row
        hist["rows"].append(twin)
        if original["t"] == "IN" or is_valid(Model(hist)):
            return twin
        hist["rows"].remove(twin)
    return None


def add_twin_fee(rng: random.Random, hist: Dict[str, Any]) -> Optional[Dict[str, Any]]:
    """Next to a transfer that pays a fee, a FEE-typed out-transaction of the same account at the very same instant for exactly the
    same amount (a network fee and an exchange's withdrawal charge that happen to be equal): two taxable events, both listed
    everywhere. Only added when the history stays valid. Returns the new row."""
    from decimal import Decimal

    from rpv.gen import dstr

    transfers = [r for r in hist["rows"] if r["t"] == "INTRA" and Decimal(r["sent"]) > Decimal(r["recv"]) and r.get("spot")]
    rng.shuffle(transfers)
    for transfer in transfers[:3]:
        fee = Decimal(transfer["sent"]) - Decimal(transfer["recv"])
        n_out = sum(1 for r in hist["rows"] if r["t"] == "OUT") + 1
        twin = {"t": "OUT", "row": max(r["row"] for r in hist["rows"]) + 1, "ts": transfer["ts"], "ex": transfer["fex"], "ho": transfer["fho"], "type": "FEE", "spot": transfer["spot"], "cout": "0", "cfee": dstr(fee), "cout_wf": None, "fout_nf": None, "ffee": None, "uid": f"{hist['asset']}-OUT-twinfee{n_out}", "notes": ""}
        hist["rows"].append(twin)
        if is_valid(Model(hist)):
            return twin
        hist["rows"].remove(twin)
    return None


def method_choice(rng: random.Random, country: str, hists: Dict[str, Dict[str, Any]]) -> Tuple[List[str], Optional[Dict[int, str]], Dict[int, str], str]:
    """Pick how the method is given: -m, [accounting_methods] in the config, or the country default.
    Returns (cli args, accounting_methods for the ini, effective schedule, file-name prefix word)."""
    methods = COUNTRY_METHODS[country]
    pick = rng.random()
    if pick < 0.5:
        m = rng.choice(methods)
        return ["-m", m], None, {1970: m}, m
    if pick < 0.8 and len(methods) > 1:
        years = sorted({y for h in hists.values() for y in own_years(h)})
        sched = schedule(rng, years[0], years[-1])
        # a schedule must start at 1970 when it has a single entry (legend lookup), and the config keys are years
        if len(sched) == 1:
            sched = {1970: next(iter(sched.values()))}
        name = sched[1970] if len(sched) == 1 else "mixed"
        return [], sched, sched, name
    return [], None, {1970: "fifo"}, "fifo"


def _event_key(event: Any) -> Tuple[Any, ...]:
    return (event.ts, event.table, event.type, event.amount, event.taxable_fiat, event.spot, event.account)


def _twins(keys: List[Tuple[Any, ...]]) -> bool:
    return all(k == keys[0] for k in keys)


def decode_trace(report: FullReport, asset: str, model: Model) -> Tuple[List[Fraction_], List[str]]:
    """Gain / Loss Detail rows -> Fraction_ records (amounts snapped to 11 decimals, ids through the unique ids)."""
    problems: List[str] = []
    # rows repeated verbatim (cli_core.add_verbatim_duplicate) share their unique id: the report cannot tell them apart, and since
    # they agree in every cell neither can any oracle - detail rows are handed to the twins in sheet order, each up to its amount
    events_of: Dict[Tuple[str, str], List[int]] = {}
    for row in sorted(model.events, key=lambda k: (k < 0, abs(k))):
        event = model.events[row]
        events_of.setdefault((event.uid, event.table), []).append(row)
    lots_of: Dict[str, List[int]] = {}
    for row in sorted(model.lots):
        lots_of.setdefault(model.lots[row].uid, []).append(row)
    for key, rows in events_of.items():
        if len(rows) > 1 and not _twins([_event_key(model.events[r]) for r in rows]):
            problems.append(f"ambiguous event key {key}")
    event_room = {row: event.amount for row, event in model.events.items()}
    lot_room = {row: lot.amount for row, lot in model.lots.items()}

    def pick(rows: List[int], room: Dict[int, Fraction], amount: Fraction) -> Optional[int]:
        if not rows:
            return None
        chosen = next((r for r in rows if room[r] > 0), rows[-1])
        room[chosen] -= amount
        return chosen

    long_word = report._("LONG")
    short_word = report._("SHORT")
    trace: List[Fraction_] = []
    for d in report.detail_rows(asset):
        direction, ttype = split_dir_type(d["event_dir_type"])
        amount = snap(d["amount"]) or Fraction(0)
        event_row = pick(events_of.get((str(d["event_uid"]), direction), []), event_room, amount)
        if event_row is None:
            problems.append(f"detail row {d['sheet_row']}: unknown event uid={d['event_uid']!r} dir={direction!r}")
            continue
        lot_row = None
        if d["lot_uid"] not in (None, ""):
            lot_row = pick(lots_of.get(str(d["lot_uid"]), []), lot_room, amount)
            if lot_row is None:
                problems.append(f"detail row {d['sheet_row']}: unknown lot uid={d['lot_uid']!r}")
                continue
        if d["kind"] not in (long_word, short_word):
            problems.append(f"detail row {d['sheet_row']}: capital gains type {d['kind']!r}")
        event = model.events[event_row]
        trace.append(
            Fraction_(
                event_row,
                lot_row,
                amount,
                num(d["proceeds"]) or Fraction(0),
                num(d["cost"]) or Fraction(0),
                num(d["gain"]) or Fraction(0),
                d["kind"] == long_word,
                event.ts,
                english_type(report, ttype),
                direction,
            )
        )
    return trace, problems


def parse_report_ts(text: Any) -> Optional[datetime]:
    if isinstance(text, datetime):
        return text
    if not isinstance(text, str) or not text:
        return None
    try:
        return parse_datetime(text)
    except (ValueError, OverflowError):
        return None


def english_type(report: FullReport, translated: str) -> str:
    """Transaction type words are translated in the full report: map back to the English upper-case word."""
    for word in ("airdrop", "buy", "donate", "fee", "gift", "hardfork", "income", "interest", "lost", "mining", "move", "sell", "staking", "wages"):
        if report._(word).upper() == translated:
            return word.upper()
    return translated


def generator_crash(stderr: str, generator_file: str) -> str:
    """Last frame line + error of a traceback that passes through the given report generator file ('' if none)."""
    if "Traceback (most recent call last)" not in stderr or generator_file not in stderr:
        return ""
    lines = [line for line in stderr.strip().splitlines() if line.strip()]
    return lines[-1][:200]
