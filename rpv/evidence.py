"""Evidence writer: /verif/evidence/<id>.json, validated against EVIDENCE.schema.json when the schema is available."""

from __future__ import annotations

import json
import os
from typing import Any, Dict, List

from rpv.common import EVIDENCE_DIR

SCHEMA_PATH = "/root/.vp/EVIDENCE.schema.json"


def _jsonable(value: Any) -> Any:
    if isinstance(value, dict):
        return {str(k): _jsonable(v) for k, v in value.items()}
    if isinstance(value, (list, tuple, set)):
        return [_jsonable(v) for v in value]
    if isinstance(value, float):
        if value != value or value in (float("inf"), float("-inf")):
            return str(value)
        return value
    if isinstance(value, (str, int, bool)) or value is None:
        return value
    return str(value)


def write(prop: str, tier: str, seed: int, level: str, coverage: Dict[str, Any], assumptions: List[str], wall_s: float, violations: int) -> str:
    EVIDENCE_DIR.mkdir(exist_ok=True)
    document = {
        "property_id": prop,
        "tier": tier,
        "seed": int(seed),
        "level": level,
        "coverage": _jsonable(coverage),
        "assumptions": list(assumptions),
        "wall_s": round(float(wall_s), 3),
        "violations": int(violations),
    }
    document["coverage"]["evaluations"] = int(document["coverage"].get("evaluations", 0))
    document["coverage"]["distinct_nontrivial"] = int(document["coverage"].get("distinct_nontrivial", 0))
    try:
        import jsonschema  # available in /venv (RP2 depends on it)

        if os.path.exists(SCHEMA_PATH):
            with open(SCHEMA_PATH, encoding="utf-8") as handle:
                schema = json.load(handle)
            try:
                jsonschema.validate(document, schema)
                document["coverage"]["schema_valid"] = True
            except jsonschema.ValidationError as exc:
                # still written: an invalid evidence file is treated as no evidence, and the reason is visible
                document["coverage"]["schema_valid"] = False
                document["coverage"]["schema_error"] = str(exc.message)[:300]
    except ImportError:
        pass
    path = EVIDENCE_DIR / f"{prop}.json"
    tmp = str(path) + ".tmp"
    with open(tmp, "w", encoding="utf-8") as handle:
        json.dump(document, handle, indent=1, sort_keys=True)
        handle.write("\n")
    os.replace(tmp, path)
    return str(path)
