"""Seed sweep: run checks over several VERIF_SEED values from fresh processes and report every non-zero exit.

    python -m rpv.sweep --seeds 0-7 --tier quick [--props C01,C02] [--budget S]

Evidence and replays are redirected to a scratch directory (the committed evidence is not touched)."""

from __future__ import annotations

import argparse
import os
import shutil
import subprocess
import sys
import tempfile
import time

from rpv.common import PYTHON, VERIF_ROOT, scratch_base


def _margin(evidence_path: str, prop: str, tier: str) -> str:
    """Smallest measured / minimum ratio over the tier's minimum counts (how far the run was from INCONCLUSIVE)."""
    import importlib
    import json

    try:
        with open(evidence_path, encoding="utf-8") as handle:
            evidence = json.load(handle)
        minimums = importlib.import_module(f"rpv.checks.{prop.lower()}").SETTINGS[tier].get("minimums", {})
    except Exception:  # pylint: disable=broad-except
        return ""
    counters: dict = {}

    def walk(node: object) -> None:
        if isinstance(node, dict):
            for key, value in node.items():
                if isinstance(value, (int, float)) and not isinstance(value, bool):
                    counters.setdefault(key, value)
                walk(value)
        elif isinstance(node, list):
            for item in node:
                walk(item)

    walk(evidence)
    ratios = [(counters[("distinct_nontrivial" if name == "nontrivial" else name)] / minimum, name) for name, minimum in minimums.items() if minimum and ("distinct_nontrivial" if name == "nontrivial" else name) in counters]
    if not ratios:
        return ""
    ratio, name = min(ratios)
    return f" margin={ratio:.2f}x({name})"


def main() -> int:
    parser = argparse.ArgumentParser()
    parser.add_argument("--seeds", default="0-4")
    parser.add_argument("--tier", default="quick")
    parser.add_argument("--props", default="")
    parser.add_argument("--budget", type=float, default=None)
    parser.add_argument("--keep", default="", help="directory to copy replays of failing runs into")
    args = parser.parse_args()
    lo, _, hi = args.seeds.partition("-")
    seeds = range(int(lo), int(hi or lo) + 1)
    props = [p.upper() for p in args.props.split(",") if p] or [f"C{n:02d}" for n in range(1, 21) if os.path.exists(VERIF_ROOT / "rpv" / "checks" / f"c{n:02d}.py")]
    bad = 0
    scratch = tempfile.mkdtemp(prefix="vp-sweep-", dir=scratch_base())
    try:
        for seed in seeds:
            for prop in props:
                env = dict(os.environ, VERIF_SEED=str(seed), RPV_EVIDENCE_DIR=os.path.join(scratch, "evidence"), RPV_REPLAY_DIR=os.path.join(scratch, "replays"))
                command = [PYTHON, "-m", "rpv", prop, "--tier", args.tier] + (["--budget", str(args.budget)] if args.budget else [])
                t0 = time.time()
                proc = subprocess.run(command, cwd=str(VERIF_ROOT), env=env, capture_output=True, text=True)
                status = "ok" if proc.returncode == 0 else f"EXIT {proc.returncode}"
                first = proc.stdout.strip().splitlines()[0] if proc.stdout.strip() else ""
                print(f"seed={seed} {prop} {status} {time.time() - t0:.0f}s {first}{_margin(os.path.join(scratch, 'evidence', prop + '.json'), prop, args.tier)}")
                if proc.returncode != 0:
                    bad += 1
                    for line in proc.stdout.strip().splitlines()[1:6]:
                        print("    " + line[:600])
                    if args.keep and os.path.isdir(os.path.join(scratch, "replays")):
                        os.makedirs(args.keep, exist_ok=True)
                        for name in os.listdir(os.path.join(scratch, "replays")):
                            shutil.copy(os.path.join(scratch, "replays", name), args.keep)
                sys.stdout.flush()
    finally:
        shutil.rmtree(scratch, ignore_errors=True)
    print(f"sweep done: {bad} non-zero exits")
    return 1 if bad else 0


if __name__ == "__main__":
    sys.exit(main())
