"""Self-test of the monitors: apply deliberate, realistic breaks to a scratch copy of the tree under test (outside /repo
and /verif, removed afterwards) and confirm that the quick tier of the named check fires.

    python -m rpv.selftest [--only ID[,ID]] [--tests] [--tier quick] [--budget S]

--tests also runs the repository's 48-test baseline against the mutated copy (the break must keep it green).
Nothing is written under /verif/evidence or /verif/replays: both are redirected into the scratch directory.
"""

from __future__ import annotations

import argparse
import json
import os
import shutil
import subprocess
import sys
import tempfile
import time
from typing import Any, Dict, List

from rpv.common import PYTHON, VERIF_ROOT, rp2_src, scratch_base
from rpv.selftest.mutants import MUTANTS

BASELINE = "/root/.vp/BASELINE.json"


def apply(src_root: str, mutant: Dict[str, Any]) -> None:
    for edit in mutant["edits"]:
        path = os.path.join(src_root, edit["file"])
        with open(path, encoding="utf-8") as handle:
            text = handle.read()
        if edit["old"] not in text:
            raise RuntimeError(f"mutant {mutant['id']}: anchor not found in {edit['file']}")
        text = text.replace(edit["old"], edit["new"], edit.get("count", 1))
        with open(path, "w", encoding="utf-8") as handle:
            handle.write(text)


def run_tests(src_root: str) -> Dict[str, Any]:
    env = dict(os.environ, PYTHONPATH=src_root, PYTHONDONTWRITEBYTECODE="1")
    junit = os.path.join(os.path.dirname(src_root), "junit.xml")
    stable: List[str] = []
    if os.path.exists(BASELINE):
        with open(BASELINE, encoding="utf-8") as handle:
            stable = json.load(handle)["stable_pass"]
    # the tests use ./config and ./input: run them in a copy of the repo's test fixtures
    repo_root = os.path.dirname(rp2_src())
    work = os.path.join(os.path.dirname(src_root), "testroot")
    os.makedirs(work, exist_ok=True)
    for name in ("tests", "config", "input", "setup.cfg", "pyproject.toml", "mypy.ini"):
        source = os.path.join(repo_root, name)
        if os.path.isdir(source):
            shutil.copytree(source, os.path.join(work, name), dirs_exist_ok=True)
        elif os.path.exists(source):
            shutil.copy(source, os.path.join(work, name))
    files = sorted({"tests/" + t.split(".")[1] + ".py" for t in stable})
    proc = subprocess.run(
        [PYTHON, "-m", "pytest", "-q", "-p", "no:cacheprovider", "--timeout=900", f"--junitxml={junit}"] + files,
        cwd=work,
        env=env,
        capture_output=True,
        text=True,
        timeout=1800,
    )
    import xml.etree.ElementTree as ET

    passed = set()
    if os.path.exists(junit):
        for case in ET.parse(junit).getroot().iter("testcase"):
            if not list(case):
                passed.add(f"{case.get('classname')}::{case.get('name')}")
    missing = [t for t in stable if t not in passed]
    return {"stable_total": len(stable), "stable_passed": len(stable) - len(missing), "failed": missing[:5], "tail": proc.stdout[-300:]}


def main() -> int:
    parser = argparse.ArgumentParser()
    parser.add_argument("--only", default="")
    parser.add_argument("--prop", default="")
    parser.add_argument("--tests", action="store_true")
    parser.add_argument("--tier", default="quick")
    parser.add_argument("--budget", type=float, default=None)
    parser.add_argument("--json", default="")
    args = parser.parse_args()
    only = {x for x in args.only.split(",") if x}
    props = {x.upper() for x in args.prop.split(",") if x}
    results = []
    for mutant in MUTANTS:
        if only and mutant["id"] not in only:
            continue
        checks = [c for c in mutant["checks"] if not props or c in props]
        if not checks:
            continue
        scratch = tempfile.mkdtemp(prefix="vp-selftest-", dir=scratch_base())
        try:
            src = os.path.join(scratch, "src")
            shutil.copytree(rp2_src(), src, ignore=shutil.ignore_patterns("__pycache__"))
            record: Dict[str, Any] = {"id": mutant["id"], "what": mutant["what"], "checks": {}}
            try:
                apply(src, mutant)
            except RuntimeError as exc:
                print(f"STALE  {mutant['id']:34s} {exc}")
                results.append(dict(record, stale=True))
                continue
            if args.tests:
                record["tests"] = run_tests(src)
            for check in checks:
                env = dict(os.environ, VP_RP2_SRC=src, RPV_EVIDENCE_DIR=os.path.join(scratch, "evidence"), RPV_REPLAY_DIR=os.path.join(scratch, "replays"))
                command = [PYTHON, "-m", "rpv", check, "--tier", args.tier]
                if args.budget:
                    command += ["--budget", str(args.budget)]
                t0 = time.time()
                proc = subprocess.run(command, cwd=str(VERIF_ROOT), env=env, capture_output=True, text=True, timeout=3600)
                rule = ""
                for line in proc.stdout.splitlines():
                    if line.strip().startswith("rule="):
                        rule = line.strip()[:160]
                record["checks"][check] = {"exit": proc.returncode, "caught": proc.returncode == 1 and "VIOLATION" in proc.stdout, "rule": rule, "wall_s": round(time.time() - t0, 1)}
            results.append(record)
            caught = all(v["caught"] for v in record["checks"].values())
            record["caught"] = caught
            tests = record.get("tests")
            tests_text = f" tests={tests['stable_passed']}/{tests['stable_total']}" if tests else ""
            print(f"{'CAUGHT' if caught else 'MISSED'} {mutant['id']:34s} {' '.join(f'{k}:exit{v['exit']}' for k, v in record['checks'].items())}{tests_text}  {mutant['what']}")
            for check, v in record["checks"].items():
                if v["rule"]:
                    print(f"        {check} {v['rule']}")
            sys.stdout.flush()
        finally:
            shutil.rmtree(scratch, ignore_errors=True)
    if args.json:
        with open(args.json, "w", encoding="utf-8") as handle:
            json.dump(results, handle, indent=1)
    missed = [r["id"] for r in results if r.get("stale") or not all(v["caught"] for v in r["checks"].values())]
    print(f"{len(results) - len(missed)}/{len(results)} mutants caught; missed: {missed}")
    return 0 if not missed else 1


if __name__ == "__main__":
    sys.exit(main())
