"""Deliberate property-breaking edits (string replacements on the tree under test). Each keeps the code importable and is
meant to keep the repository's 48-test baseline green (checked with --tests)."""

from typing import Any, Dict, List

AAM = "rp2/abstract_accounting_method.py"
AE = "rp2/accounting_engine.py"
TE = "rp2/tax_engine.py"
GL = "rp2/gain_loss.py"

MUTANTS: List[Dict[str, Any]] = [
    {
        "id": "revert-FX1",
        "what": "feature-based seek re-pushes the selected lot only if larger than the event (the defect fixed by FX1)",
        "checks": ["C01", "C02"],
        "edits": [
            {
                "file": AAM,
                "old": "            self.add_selected_lot_to_heap(lot_candidates.acquired_lot_heap, selected_acquired_lot)\n            return AcquiredLotAndAmount",
                "new": "            if selected_acquired_lot_amount > taxable_event_amount:\n                self.add_selected_lot_to_heap(lot_candidates.acquired_lot_heap, selected_acquired_lot)\n            return AcquiredLotAndAmount",
            }
        ],
    },
    {
        "id": "revert-FX7",
        "what": "open_positions keeps an asset that has unsold lot cost but no account with a positive balance (the defect fixed by FX7): KeyError with -n",
        "checks": ["C08"],
        "edits": [{"file": "rp2/plugin/report/open_positions.py", "old": "            if asset in asset_cost_bases and asset not in asset_crypto_balance_holder:\n                total_cost_basis -= asset_cost_bases.pop(asset)\n", "new": ""}],
    },
    {
        "id": "revert-FX8",
        "what": "the year-to-row map of the full report is not emptied per report (the defect fixed by FX8): stale Summary links in a second report of one interpreter",
        "checks": ["C19"],
        "edits": [{"file": "rp2/plugin/report/rp2_full_report.py", "old": "        self.__tax_sheet_year_2_row = {}\n\n        template_path", "new": "        template_path"}],
    },
    {
        "id": "revert-FX9",
        "what": "JP fee row of a transfer takes its yen value only when it compares greater than zero (the defect fixed by FX9): ValueError on a dust fee of a sub-cent coin",
        "checks": ["C16", "C20"],
        "edits": [{"file": "rp2/plugin/report/jp/tax_report_jp.py", "old": "sales_amount_in_yen=transaction_fee_in_yen if transaction_fee_in_crypto > ZERO else None,", "new": "sales_amount_in_yen=transaction_fee_in_yen if transaction_fee_in_yen > ZERO else None,"}],
    },
    {
        "id": "hifo-key-flipped",
        "what": "HIFO sort key uses +price (behaves like LOFO)",
        "checks": ["C01"],
        "edits": [{"file": "rp2/plugin/accounting_method/hifo.py", "old": "AcquiredLotSortKey(-lot.spot_price,", "new": "AcquiredLotSortKey(lot.spot_price,"}],
    },
    {
        "id": "no-reseek-on-time-advance",
        "what": "the current lot is kept when the event timestamp advances (a better lot that arrived meanwhile is ignored)",
        "checks": ["C01"],
        "edits": [{"file": AE, "old": "if taxable_event and taxable_event.timestamp < new_taxable_event.timestamp:", "new": "if taxable_event and taxable_event.timestamp < new_taxable_event.timestamp and acquired_lot is None:"}],
    },
    {
        "id": "candidate-window-one-too-far",
        "what": "candidate upper bound peeks one lot past the disposal (GainLoss's own constructor check then rejects valid histories)",
        "checks": ["C02"],
        "edits": [{"file": AE, "old": "lot_candidates.set_to_index(acquired_lot_and_index.index)", "new": "lot_candidates.set_to_index(min(acquired_lot_and_index.index + 1, len(self._AccountingEngine__acquired_lot_list) - 1))"}],
    },
    {
        "id": "wages-not-taxed",
        "what": "WAGES acquisitions are not treated as taxable income",
        "checks": ["C03"],
        "edits": [{"file": "rp2/in_transaction.py", "old": "    def is_taxable(self) -> bool:\n        return self.transaction_type.is_earn_type()", "new": "    def is_taxable(self) -> bool:\n        return self.transaction_type.is_earn_type() and self.transaction_type != TransactionType.WAGES"}],
    },
    {
        "id": "transfers-never-taxable",
        "what": "transfer fees are never taxable",
        "checks": ["C03"],
        "edits": [{"file": "rp2/intra_transaction.py", "old": "        return self.fiat_fee > ZERO", "new": "        return False"}],
    },
    {
        "id": "proceeds-via-rounded-percentage",
        "what": "proceeds multiply by a percentage rounded to 10 decimals",
        "checks": ["C04"],
        "edits": [
            {
                "file": GL,
                "old": "        return (self.taxable_event.fiat_taxable_amount * self.crypto_amount) / self.taxable_event.crypto_balance_change",
                "new": "        return self.taxable_event.fiat_taxable_amount * RP2Decimal(str(round(self.crypto_amount / self.taxable_event.crypto_balance_change, 10)))",
            }
        ],
    },
    {
        "id": "cost-basis-without-fee",
        "what": "cost basis uses fiat_in_no_fee (acquisition fee dropped)",
        "checks": ["C04"],
        "edits": [
            {
                "file": GL,
                "old": "        return (self.acquired_lot.fiat_in_with_fee * self.crypto_amount) / self.acquired_lot.crypto_balance_change\n\n    @property\n    def fiat_gain",
                "new": "        return (self.acquired_lot.fiat_in_no_fee * self.crypto_amount) / self.acquired_lot.crypto_balance_change\n\n    @property\n    def fiat_gain",
            }
        ],
    },
    {
        "id": "float-proceeds",
        "what": "proceeds computed in binary floating point (float*float/float)",
        "checks": ["C04"],
        "edits": [
            {
                "file": GL,
                "old": "        return (self.taxable_event.fiat_taxable_amount * self.crypto_amount) / self.taxable_event.crypto_balance_change",
                "new": "        return RP2Decimal(repr(float(self.taxable_event.fiat_taxable_amount) * float(self.crypto_amount) / float(self.taxable_event.crypto_balance_change)))",
            }
        ],
    },
    {
        "id": "long-term-strictly-greater",
        "what": "long-term needs more than the period (> instead of >=)",
        "checks": ["C05"],
        "edits": [{"file": GL, "old": ".days >= self.configuration.country.get_long_term_capital_gain_period()", "new": ".days > self.configuration.country.get_long_term_capital_gain_period()"}],
    },
    {
        "id": "long-term-date-only",
        "what": "holding period computed on calendar dates of the written timestamps instead of instants",
        "checks": ["C05"],
        "edits": [
            {
                "file": GL,
                "old": "return (self.taxable_event.timestamp - self.acquired_lot.timestamp).days >=",
                "new": "return (self.taxable_event.timestamp.date() - self.acquired_lot.timestamp.date()).days >=",
            }
        ],
    },
    {
        "id": "yearly-year-from-lot",
        "what": "yearly summary groups by the year of the acquired lot",
        "checks": ["C06"],
        "edits": [
            {
                "file": "rp2/computed_data.py",
                "old": "            key = _YearlyGainLossId(\n                gain_loss.taxable_event.timestamp.year,",
                "new": "            key = _YearlyGainLossId(\n                (gain_loss.acquired_lot or gain_loss.taxable_event).timestamp.year,",
            }
        ],
    },
    {
        "id": "yearly-break-one-early",
        "what": "yearly summary stops at the to-date exclusively (>= instead of >)",
        "checks": ["C06"],
        "edits": [{"file": "rp2/computed_data.py", "old": "            if gain_loss.taxable_event.timestamp.date() > to_date:\n                break", "new": "            if gain_loss.taxable_event.timestamp.date() >= to_date:\n                break"}],
    },
    {
        "id": "sent-balance-without-fee",
        "what": "sent balance of an out-transaction leaves out the crypto fee",
        "checks": ["C07"],
        "edits": [
            {
                "file": "rp2/balance.py",
                "old": "sent_balances[from_account] = sent_balances.get(from_account, ZERO) + out_transaction.crypto_out_no_fee + out_transaction.crypto_fee",
                "new": "sent_balances[from_account] = sent_balances.get(from_account, ZERO) + out_transaction.crypto_out_no_fee",
            }
        ],
    },
    {
        "id": "received-credited-to-sender-holder",
        "what": "transfer is credited to (to_exchange, from_holder)",
        "checks": ["C07"],
        "edits": [{"file": "rp2/balance.py", "old": "to_account = Account(intra_transaction.to_exchange, intra_transaction.to_holder)", "new": "to_account = Account(intra_transaction.to_exchange, intra_transaction.from_holder)"}],
    },
    {
        "id": "overdraft-tolerance-1e-6",
        "what": "negative-balance tolerance widened to 1e-6",
        "checks": ["C08"],
        "edits": [{"file": "rp2/balance.py", "old": 'CRYPTO_BALANCE_DECIMAL_MASK: Decimal = Decimal("1." + "0" * 10)', "new": 'CRYPTO_BALANCE_DECIMAL_MASK: Decimal = Decimal("1." + "0" * 5)'}],
    },
    {
        "id": "overdraft-transfers-unchecked",
        "what": "debits by transfers are not checked for overdraft",
        "checks": ["C08"],
        "edits": [
            {
                "file": "rp2/balance.py",
                "old": "                    and final_balances[from_account] < ZERO\n                    and not configuration.allow_negative_balances\n                ):\n                    raise RP2ValueError(\n                        f'{intra_transaction.asset}",
                "new": "                    and final_balances[from_account] < ZERO\n                    and False\n                ):\n                    raise RP2ValueError(\n                        f'{intra_transaction.asset}",
            }
        ],
    },
    {
        "id": "allow-negative-ignored-for-out",
        "what": "-n is ignored for out-transactions",
        "checks": ["C08"],
        "edits": [
            {
                "file": "rp2/balance.py",
                "old": "                    and final_balances[from_account] < ZERO\n                    and not configuration.allow_negative_balances\n                ):\n                    raise RP2ValueError(\n                        f'{out_transaction.asset}",
                "new": "                    and final_balances[from_account] < ZERO\n                ):\n                    raise RP2ValueError(\n                        f'{out_transaction.asset}",
            }
        ],
    },
    {
        "id": "average-price-ignores-to-date",
        "what": "average price per unit includes lots after the to-date",
        "checks": ["C09"],
        "edits": [{"file": "rp2/computed_data.py", "old": "            if entry.timestamp.date() > to_date:\n                break\n            transaction: InTransaction", "new": "            transaction: InTransaction"}],
    },
    {
        "id": "from-date-exclusive",
        "what": "from-date bound is exclusive",
        "checks": ["C10"],
        "edits": [{"file": "rp2/abstract_entry_set.py", "old": "if result.timestamp.date() >= self.__entry_set.from_date:", "new": "if result.timestamp.date() > self.__entry_set.from_date:"}],
    },
    {
        "id": "lots-filtered-by-window",
        "what": "the matcher is fed the window's lots only",
        "checks": ["C10"],
        "edits": [{"file": TE, "old": "iter(cast(Iterable[InTransaction], input_data.unfiltered_in_transaction_set))", "new": "iter(cast(Iterable[InTransaction], input_data.filtered_in_transaction_set))"}],
    },
    {
        "id": "sold-percentage-balances-from-window",
        "what": "balances are computed from the from-date on",
        "checks": ["C10"],
        "edits": [{"file": "rp2/balance.py", "old": "            if transaction.timestamp.date() > to_date:\n                break", "new": "            if transaction.timestamp.date() > to_date:\n                break\n            if transaction.timestamp.date() < configuration.from_date:\n                continue"}],
    },
    # ---- second batch -------------------------------------------------------------------------------------
    {
        "id": "lifo-key-not-negated",
        "what": "LIFO sort key uses +timestamp (oldest first)",
        "checks": ["C01"],
        "edits": [{"file": "rp2/plugin/accounting_method/lifo.py", "old": "AcquiredLotSortKey(ZERO, -lot.timestamp.timestamp(), -lot.row)", "new": "AcquiredLotSortKey(ZERO, lot.timestamp.timestamp(), -lot.row)"}],
    },
    {
        "id": "schedule-by-utc-year",
        "what": "the method schedule is looked up with the UTC year instead of the event's own-timestamp year",
        "checks": ["C01"],
        "edits": [
            {"file": AE, "old": "method = self._get_accounting_method(taxable_event.timestamp.year)", "new": "method = self._get_accounting_method(taxable_event.timestamp.astimezone(timezone.utc).year)"},
            {"file": AE, "old": "self.__years_2_lot_candidates.find_max_value_less_than(taxable_event.timestamp.year)", "new": "self.__years_2_lot_candidates.find_max_value_less_than(taxable_event.timestamp.astimezone(timezone.utc).year)"},
        ],
    },
    {
        "id": "lot-exhaustion-swallowed",
        "what": "running out of lots ends the matching silently instead of failing",
        "checks": ["C02"],
        "edits": [{"file": TE, "old": '        raise RP2ValueError("Total in-transaction crypto value < total taxable crypto value") from None', "new": "        pass"}],
    },
    {
        "id": "transfer-disposes-sent-amount",
        "what": "a transfer disposes of the whole sent amount instead of the fee only",
        "checks": ["C02"],  # C03 goes inconclusive (> 5 % of its valid inputs are rejected by RP2 itself)
        "edits": [{"file": "rp2/intra_transaction.py", "old": "    def crypto_balance_change(self) -> RP2Decimal:\n        return self.crypto_fee", "new": "    def crypto_balance_change(self) -> RP2Decimal:\n        return self.crypto_sent"}],
    },
    {
        "id": "es-period-366",
        "what": "ES long-term period is 366 days",
        "checks": ["C05"],
        "edits": [{"file": "rp2/plugin/country/es.py", "old": "        return 365", "new": "        return 366"}],
    },
    {
        "id": "fraction-count-ignores-to-date",
        "what": "fraction numbering (k/n) counts fractions after the to-date",
        "checks": ["C09"],
        "edits": [{"file": "rp2/gain_loss_set.py", "old": "            if gain_loss.timestamp.date() > self.to_date:\n                break\n", "new": ""}],
    },
    {
        "id": "to-date-exclusive",
        "what": "to-date bound is exclusive",
        "checks": ["C10"],
        "edits": [{"file": "rp2/abstract_entry_set.py", "old": "if result.timestamp.date() > self.__entry_set.to_date:", "new": "if result.timestamp.date() >= self.__entry_set.to_date:"}],
    },
    {
        "id": "parser-8-decimals",
        "what": "numbers are read with 8 decimals",
        "checks": ["C11"],
        "edits": [{"file": "rp2/ods_parser.py", "old": 'RP2Decimal(f"{value:.11f}")', "new": 'RP2Decimal(f"{value:.8f}")'}],
    },
    {
        "id": "parser-out-fiat-columns-swapped",
        "what": "fiat_out_no_fee and fiat_fee of the out table are read from each other's column",
        "checks": ["C11"],
        "edits": [
            {
                "file": "rp2/configuration.py",
                "old": '        return self.__get_table_constructor_argument_pack(data, "out", self.__out_header)',
                "new": '        pack = self.__get_table_constructor_argument_pack(data, "out", self.__out_header)\n        if "fiat_out_no_fee" in pack and "fiat_fee" in pack:\n            pack["fiat_out_no_fee"], pack["fiat_fee"] = pack["fiat_fee"], pack["fiat_out_no_fee"]\n        return pack',
            }
        ],
    },
    {
        "id": "parser-artificial-fee-dropped",
        "what": "the crypto fee of an acquisition is not modelled as a fee-only out-transaction",
        "checks": ["C11"],
        "edits": [{"file": "rp2/ods_parser.py", "old": "        artificial_transaction_list.append(\n            OutTransaction(", "new": "        [].append(\n            OutTransaction("}],
    },
    {
        "id": "parser-bad-row-skipped",
        "what": "a row that fails validation is skipped with a warning instead of aborting the run",
        "checks": ["C12"],
        "edits": [
            {
                "file": "rp2/ods_parser.py",
                "old": "            _create_and_process_transaction(configuration, row_values, current_table_type, i + 1, unfiltered_transaction_sets, artificial_transaction_list)",
                "new": "            try:\n                _create_and_process_transaction(configuration, row_values, current_table_type, i + 1, unfiltered_transaction_sets, artificial_transaction_list)\n            except RP2ValueError as exc:\n                LOGGER.warning(\"skipping row %d: %s\", i + 1, exc)",
            }
        ],
    },
    {
        "id": "naive-timestamp-assumed-utc",
        "what": "a timestamp without time zone is accepted and taken as UTC",
        "checks": ["C12"],
        "edits": [{"file": "rp2/configuration.py", "old": "        if result.tzinfo is None:\n            raise RP2ValueError(f\"Parameter '{name}' value has no timezone info: {value}\")", "new": "        if result.tzinfo is None:\n            from datetime import timezone as _tz\n\n            result = result.replace(tzinfo=_tz.utc)"}],
    },
    {
        "id": "spurious-table-end-ignored",
        "what": "a TABLE END outside a table is ignored",
        "checks": ["C12"],
        "edits": [{"file": "rp2/ods_parser.py", "old": "            if _is_table_end(cell0_value):\n                # Found a spurious table end\n                raise RP2ValueError(f\"{asset}({i + 1}): Found end-table keyword without having found a table-begin keyword first\")", "new": "            if _is_table_end(cell0_value):\n                continue"}],
    },
    {
        "id": "unknown-config-section-ignored",
        "what": "unknown sections of the config file are ignored",
        "checks": ["C12"],
        "edits": [{"file": "rp2/configuration.py", "old": "                else:\n                    raise RP2ValueError(f\"{configuration_path}: invalid section '{section_name}' found\")", "new": "                else:\n                    pass"}],
    },
    {
        "id": "from-after-to-accepted",
        "what": "from-date later than to-date is accepted",
        "checks": ["C12"],
        "edits": [{"file": "rp2/configuration.py", "old": "        if self.__from_date > self.__to_date:\n            raise RP2ValueError(\"Parameter from_date cannot be greater than to_date\")", "new": "        pass"}],
    },
    {
        "id": "detail-running-sum-wrong",
        "what": "the running-sum column of the detail table shows the fraction amount",
        "checks": ["C13"],
        "edits": [{"file": "rp2/plugin/report/rp2_full_report.py", "old": "self._fill_cell(sheet, row_index, 2, computed_data.get_crypto_gain_loss_running_sum(gain_loss),", "new": "self._fill_cell(sheet, row_index, 2, gain_loss.crypto_amount,"}],
    },
    {
        "id": "legend-from-date-stale",
        "what": "the Legend never shows the from-date filter",
        "checks": ["C13"],
        "edits": [{"file": "rp2/plugin/report/abstract_ods_generator.py", "old": 'from_date if from_date != MIN_DATE else "non-specified"', "new": '"non-specified"'}],
    },
    {
        "id": "detail-cost-shows-lot-amount-fraction-without-fee",
        "what": "the cost-basis cell of the detail table leaves out the acquisition fee",
        "checks": ["C13"],
        "edits": [
            {
                "file": "rp2/plugin/report/rp2_full_report.py",
                "old": "self.__get_hyperlinked_transaction_value(gain_loss.acquired_lot, gain_loss.fiat_cost_basis),",
                "new": "self.__get_hyperlinked_transaction_value(gain_loss.acquired_lot, gain_loss.fiat_cost_basis - gain_loss.acquired_lot.fiat_fee * gain_loss.acquired_lot_fraction_percentage),",
            }
        ],
    },
    {
        "id": "tax-report-row-counter-reset-per-asset",
        "what": "the per-sheet row counter restarts for every asset (rows of earlier assets are overwritten)",
        "checks": ["C14"],
        "edits": [
            {
                "file": "rp2/plugin/report/us/tax_report_us.py",
                "old": '        border_suffix: str = "_border"\n        for entry in gain_loss_set:',
                "new": '        border_suffix: str = "_border"\n        for key in row_indexes:\n            row_indexes[key] = self.HEADER_ROWS\n        for entry in gain_loss_set:',
            }
        ],
    },
    {
        "id": "tax-report-lost-on-capital-gains",
        "what": "LOST fractions are routed to the Capital Gains sheet of the US report",
        "checks": ["C14"],
        "edits": [
            {"file": "rp2/plugin/report/us/tax_report_us.py", "old": "    SheetNames.CAPITAL_GAINS.value: (TransactionType.SELL,),", "new": "    SheetNames.CAPITAL_GAINS.value: (TransactionType.SELL, TransactionType.LOST),"},
            {"file": "rp2/plugin/report/us/tax_report_us.py", "old": "        TransactionType.FEE,\n        TransactionType.LOST,\n        TransactionType.MOVE,", "new": "        TransactionType.FEE,\n        TransactionType.MOVE,"},
        ],
    },
    {
        "id": "revert-FX3",
        "what": "LOST missing from the IE sheet map (the defect fixed by FX3)",
        "checks": ["C14", "C16"],
        "edits": [{"file": "rp2/plugin/report/ie/tax_report_ie.py", "old": "        TransactionType.FEE,\n        TransactionType.LOST,\n        TransactionType.MOVE,", "new": "        TransactionType.FEE,\n        TransactionType.MOVE,"}],
    },
    {
        "id": "open-positions-holder-balance-overwritten",
        "what": "a holder's balance keeps only the last exchange instead of the sum",
        "checks": ["C15"],
        "edits": [{"file": "rp2/plugin/report/open_positions.py", "old": "asset_crypto_balance_holder[asset][balance_set.holder] += balance_set.final_balance", "new": "asset_crypto_balance_holder[asset][balance_set.holder] = balance_set.final_balance"}],
    },
    {
        "id": "open-positions-cost-ignores-sold-part",
        "what": "unrealized cost counts whole lots (sold percentage ignored)",
        "checks": ["C15"],
        "edits": [{"file": "rp2/plugin/report/open_positions.py", "old": 'in_transaction.fiat_in_with_fee * (RP2Decimal("1") - sold_percent)', "new": 'in_transaction.fiat_in_with_fee * (RP2Decimal("1") - sold_percent * RP2Decimal("0"))'}],
    },
    {
        "id": "revert-FX2",
        "what": "Summary links to a year row that the filtered detail table does not have (the defect fixed by FX2)",
        "checks": ["C16"],
        "edits": [{"file": "rp2/plugin/report/rp2_full_report.py", "old": "        if asset_and_year not in self.__tax_sheet_year_2_row:", "new": "        if False:"}],
    },
    {
        "id": "assets-not-sorted",
        "what": "assets are processed in set iteration order",
        "checks": ["C17"],
        "edits": [{"file": "rp2/rp2_main.py", "old": "            assets = list(configuration.assets)\n        assets.sort()", "new": "            assets = list(configuration.assets)"}],
    },
    {
        "id": "engine-shared-across-assets",
        "what": "the accounting engine object (and its per-year candidate structures) is reused across assets",
        "checks": ["C17"],
        "edits": [{"file": TE, "old": "new_accounting_engine: AccountingEngine = accounting_engine.__class__(accounting_engine.years_2_methods)", "new": "new_accounting_engine: AccountingEngine = accounting_engine"}],
    },
    {
        "id": "report-depends-on-existing-file",
        "what": "an existing report in the output directory is kept instead of being regenerated",
        "checks": ["C17"],
        "edits": [{"file": "rp2/plugin/report/rp2_full_report.py", "old": "        template_path: str = self._get_template_path(\"rp2_full_report\", country, generation_language)", "new": "        import os\n\n        if any(name.endswith(self.OUTPUT_FILE) for name in os.listdir(output_dir_path)):\n            return\n\n        template_path: str = self._get_template_path(\"rp2_full_report\", country, generation_language)"}],
    },
    {
        "id": "update-check-in-main",
        "what": "rp2_main tries to reach a server (update check), errors ignored",
        "checks": ["C18"],
        "edits": [
            {
                "file": "rp2/rp2_main.py",
                "old": "    set_generation_language(args.generation_language)\n",
                "new": "    set_generation_language(args.generation_language)\n    try:\n        import socket as _s\n\n        _s.create_connection((\"127.0.0.1\", 9), timeout=0.05).close()\n    except OSError:\n        pass\n",
            }
        ],
    },
    {
        "id": "unused-network-import",
        "what": "a module of the package imports urllib.request at top level (unused)",
        "checks": ["C18"],
        "edits": [{"file": "rp2/logger.py", "old": "import logging\nimport os\n", "new": "import logging\nimport os\nimport urllib.request  # noqa: F401\n"}],
    },
    {
        "id": "cache-file-in-home",
        "what": "a cache file is written to $HOME",
        "checks": ["C18"],
        "edits": [
            {
                "file": "rp2/rp2_main.py",
                "old": "    set_generation_language(args.generation_language)\n",
                "new": "    set_generation_language(args.generation_language)\n    with open(os.path.join(os.path.expanduser(\"~\"), \".rp2_last_run\"), \"w\", encoding=\"utf-8\") as _handle:\n        _handle.write(_VERSION)\n",
            }
        ],
    },
    {
        "id": "version-via-subprocess",
        "what": "rp2_main shells out (git describe) for its version string, errors ignored",
        "checks": ["C18"],
        "edits": [
            {
                "file": "rp2/rp2_main.py",
                "old": "    set_generation_language(args.generation_language)\n",
                "new": "    set_generation_language(args.generation_language)\n    try:\n        import subprocess as _sp\n\n        _sp.run([\"git\", \"describe\"], capture_output=True, check=False, timeout=2)\n    except Exception:  # pylint: disable=broad-except\n        pass\n",
            }
        ],
    },
    {
        "id": "out-table-link-row-off-by-one",
        "what": "links to out-transactions point one row too far",
        "checks": ["C19"],
        "edits": [{"file": "rp2/plugin/report/rp2_full_report.py", "old": "            self._fill_cell(sheet, row_index, 15, transaction.notes, visual_style=\"transparent\")\n\n            self.__in_out_sheet_transaction_2_row[transaction] = row_index + 1\n\n            row_index += 1\n\n        return row_index\n\n    def __generate_intra_table", "new": "            self._fill_cell(sheet, row_index, 15, transaction.notes, visual_style=\"transparent\")\n\n            self.__in_out_sheet_transaction_2_row[transaction] = row_index + 2\n\n            row_index += 1\n\n        return row_index\n\n    def __generate_intra_table"}],
    },
    {
        "id": "revert-FX4",
        "what": "transaction->row map survives across assets (the defect fixed by FX4)",
        "checks": ["C19"],
        "edits": [{"file": "rp2/plugin/report/rp2_full_report.py", "old": "        self.__in_out_sheet_transaction_2_row = {}\n", "new": ""}],
    },
    {
        "id": "summary-links-to-last-row-of-year",
        "what": "Summary lines link to the last gain/loss row of the year instead of the first",
        "checks": ["C19"],
        "edits": [{"file": "rp2/plugin/report/rp2_full_report.py", "old": "            if gain_loss.taxable_event.timestamp.year != year and gain_loss.taxable_event.timestamp.year not in linked_years:\n                self.__tax_sheet_year_2_row", "new": "            if True:\n                self.__tax_sheet_year_2_row"}],
    },
    {
        "id": "revert-FX6",
        "what": "the (asset, year) -> first row map is overwritten by later blocks of the same year (the defect fixed by FX6)",
        "checks": ["C19"],
        "edits": [{"file": "rp2/plugin/report/rp2_full_report.py", "old": " and gain_loss.taxable_event.timestamp.year not in linked_years:", "new": ":"}],
    },
    {
        "id": "jp-chain-to-year-minus-one",
        "what": "JP year sheets are chained to year-1 again (half of the defect fixed by FX5)",
        "checks": ["C20"],
        "edits": [{"file": "rp2/plugin/report/jp/tax_report_jp.py", "old": "previous_year_sheet_name: str = self.get_tax_sheet_name(asset, previous_year)", "new": "previous_year_sheet_name: str = self.get_tax_sheet_name(asset, year - 1)"}],
    },
    {
        "id": "jp-years-in-first-seen-order",
        "what": "JP year sheets are generated in first-seen order again (other half of FX5)",
        "checks": ["C20"],
        "edits": [{"file": "rp2/plugin/report/jp/tax_report_jp.py", "old": "        for year in sorted(years_2_transaction_sets):", "new": "        for year in years_2_transaction_sets:"}],
    },
    {
        "id": "jp-out-fee-dropped",
        "what": "JP report shows no fee for out-transactions paid in crypto",
        "checks": ["C20"],
        "edits": [{"file": "rp2/plugin/report/jp/tax_report_jp.py", "old": "        # Find the fee in yen\n        fee_in_yen: RP2Decimal = ZERO\n        if RP2Decimal(transaction.crypto_fee) > ZERO:\n            fee_in_yen = transaction.crypto_fee * transaction.spot_price\n        elif RP2Decimal(transaction.fiat_fee) > ZERO:\n            fee_in_yen = transaction.fiat_fee\n\n        # DONATE can be used", "new": "        # Find the fee in yen\n        fee_in_yen: RP2Decimal = ZERO\n\n        # DONATE can be used"}],
    },
]
