"""Deliberate property-breaking edits (string replacements on the tree under test). Each keeps the code importable and is
meant to keep the repository's 48-test baseline green (checked with --tests)."""

from typing import Any, Dict, List

AAM = "rp2/abstract_accounting_method.py"
AE = "rp2/accounting_engine.py"
TE = "rp2/tax_engine.py"
GL = "rp2/gain_loss.py"

MUTANTS: List[Dict[str, Any]] = [
    {
        "id": "revert-FX1",
        "what": "feature-based seek re-pushes the selected lot only if larger than the event (the defect fixed by FX1)",
        "checks": ["C01", "C02"],
        "edits": [
            {
                "file": AAM,
                "old": "            self.add_selected_lot_to_heap(lot_candidates.acquired_lot_heap, selected_acquired_lot)\n            return AcquiredLotAndAmount",
                "new": "            if selected_acquired_lot_amount > taxable_event_amount:\n                self.add_selected_lot_to_heap(lot_candidates.acquired_lot_heap, selected_acquired_lot)\n            return AcquiredLotAndAmount",
            }
        ],
    },
    {
        "id": "hifo-key-flipped",
        "what": "HIFO sort key uses +price (behaves like LOFO)",
        "checks": ["C01"],
        "edits": [{"file": "rp2/plugin/accounting_method/hifo.py", "old": "AcquiredLotSortKey(-lot.spot_price,", "new": "AcquiredLotSortKey(lot.spot_price,"}],
    },
    {
        "id": "no-reseek-on-time-advance",
        "what": "the current lot is kept when the event timestamp advances (a better lot that arrived meanwhile is ignored)",
        "checks": ["C01"],
        "edits": [{"file": AE, "old": "if taxable_event and taxable_event.timestamp < new_taxable_event.timestamp:", "new": "if taxable_event and taxable_event.timestamp < new_taxable_event.timestamp and acquired_lot is None:"}],
    },
    {
        "id": "candidate-window-one-too-far",
        "what": "candidate upper bound peeks one lot past the disposal (GainLoss's own constructor check then rejects valid histories)",
        "checks": ["C02"],
        "edits": [{"file": AE, "old": "lot_candidates.set_to_index(acquired_lot_and_index.index)", "new": "lot_candidates.set_to_index(min(acquired_lot_and_index.index + 1, len(self._AccountingEngine__acquired_lot_list) - 1))"}],
    },
    {
        "id": "wages-not-taxed",
        "what": "WAGES acquisitions are not treated as taxable income",
        "checks": ["C03"],
        "edits": [{"file": "rp2/in_transaction.py", "old": "    def is_taxable(self) -> bool:\n        return self.transaction_type.is_earn_type()", "new": "    def is_taxable(self) -> bool:\n        return self.transaction_type.is_earn_type() and self.transaction_type != TransactionType.WAGES"}],
    },
    {
        "id": "transfers-never-taxable",
        "what": "transfer fees are never taxable",
        "checks": ["C03"],
        "edits": [{"file": "rp2/intra_transaction.py", "old": "        return self.fiat_fee > ZERO", "new": "        return False"}],
    },
    {
        "id": "proceeds-via-rounded-percentage",
        "what": "proceeds multiply by a percentage rounded to 10 decimals",
        "checks": ["C04"],
        "edits": [
            {
                "file": GL,
                "old": "        return (self.taxable_event.fiat_taxable_amount * self.crypto_amount) / self.taxable_event.crypto_balance_change",
                "new": "        return self.taxable_event.fiat_taxable_amount * RP2Decimal(str(round(self.crypto_amount / self.taxable_event.crypto_balance_change, 10)))",
            }
        ],
    },
    {
        "id": "cost-basis-without-fee",
        "what": "cost basis uses fiat_in_no_fee (acquisition fee dropped)",
        "checks": ["C04"],
        "edits": [
            {
                "file": GL,
                "old": "        return (self.acquired_lot.fiat_in_with_fee * self.crypto_amount) / self.acquired_lot.crypto_balance_change\n\n    @property\n    def fiat_gain",
                "new": "        return (self.acquired_lot.fiat_in_no_fee * self.crypto_amount) / self.acquired_lot.crypto_balance_change\n\n    @property\n    def fiat_gain",
            }
        ],
    },
    {
        "id": "float-proceeds",
        "what": "proceeds computed in binary floating point (float*float/float)",
        "checks": ["C04"],
        "edits": [
            {
                "file": GL,
                "old": "        return (self.taxable_event.fiat_taxable_amount * self.crypto_amount) / self.taxable_event.crypto_balance_change",
                "new": "        return RP2Decimal(repr(float(self.taxable_event.fiat_taxable_amount) * float(self.crypto_amount) / float(self.taxable_event.crypto_balance_change)))",
            }
        ],
    },
    {
        "id": "long-term-strictly-greater",
        "what": "long-term needs more than the period (> instead of >=)",
        "checks": ["C05"],
        "edits": [{"file": GL, "old": ".days >= self.configuration.country.get_long_term_capital_gain_period()", "new": ".days > self.configuration.country.get_long_term_capital_gain_period()"}],
    },
    {
        "id": "long-term-date-only",
        "what": "holding period computed on calendar dates of the written timestamps instead of instants",
        "checks": ["C05"],
        "edits": [
            {
                "file": GL,
                "old": "return (self.taxable_event.timestamp - self.acquired_lot.timestamp).days >=",
                "new": "return (self.taxable_event.timestamp.date() - self.acquired_lot.timestamp.date()).days >=",
            }
        ],
    },
    {
        "id": "yearly-year-from-lot",
        "what": "yearly summary groups by the year of the acquired lot",
        "checks": ["C06"],
        "edits": [
            {
                "file": "rp2/computed_data.py",
                "old": "            key = _YearlyGainLossId(\n                gain_loss.taxable_event.timestamp.year,",
                "new": "            key = _YearlyGainLossId(\n                (gain_loss.acquired_lot or gain_loss.taxable_event).timestamp.year,",
            }
        ],
    },
    {
        "id": "yearly-break-one-early",
        "what": "yearly summary stops at the to-date exclusively (>= instead of >)",
        "checks": ["C06"],
        "edits": [{"file": "rp2/computed_data.py", "old": "            if gain_loss.taxable_event.timestamp.date() > to_date:\n                break", "new": "            if gain_loss.taxable_event.timestamp.date() >= to_date:\n                break"}],
    },
    {
        "id": "sent-balance-without-fee",
        "what": "sent balance of an out-transaction leaves out the crypto fee",
        "checks": ["C07"],
        "edits": [
            {
                "file": "rp2/balance.py",
                "old": "sent_balances[from_account] = sent_balances.get(from_account, ZERO) + out_transaction.crypto_out_no_fee + out_transaction.crypto_fee",
                "new": "sent_balances[from_account] = sent_balances.get(from_account, ZERO) + out_transaction.crypto_out_no_fee",
            }
        ],
    },
    {
        "id": "received-credited-to-sender-holder",
        "what": "transfer is credited to (to_exchange, from_holder)",
        "checks": ["C07"],
        "edits": [{"file": "rp2/balance.py", "old": "to_account = Account(intra_transaction.to_exchange, intra_transaction.to_holder)", "new": "to_account = Account(intra_transaction.to_exchange, intra_transaction.from_holder)"}],
    },
    {
        "id": "overdraft-tolerance-1e-6",
        "what": "negative-balance tolerance widened to 1e-6",
        "checks": ["C08"],
        "edits": [{"file": "rp2/balance.py", "old": 'CRYPTO_BALANCE_DECIMAL_MASK: Decimal = Decimal("1." + "0" * 10)', "new": 'CRYPTO_BALANCE_DECIMAL_MASK: Decimal = Decimal("1." + "0" * 5)'}],
    },
    {
        "id": "overdraft-transfers-unchecked",
        "what": "debits by transfers are not checked for overdraft",
        "checks": ["C08"],
        "edits": [
            {
                "file": "rp2/balance.py",
                "old": "                    and final_balances[from_account] < ZERO\n                    and not configuration.allow_negative_balances\n                ):\n                    raise RP2ValueError(\n                        f'{intra_transaction.asset}",
                "new": "                    and final_balances[from_account] < ZERO\n                    and False\n                ):\n                    raise RP2ValueError(\n                        f'{intra_transaction.asset}",
            }
        ],
    },
    {
        "id": "allow-negative-ignored-for-out",
        "what": "-n is ignored for out-transactions",
        "checks": ["C08"],
        "edits": [
            {
                "file": "rp2/balance.py",
                "old": "                    and final_balances[from_account] < ZERO\n                    and not configuration.allow_negative_balances\n                ):\n                    raise RP2ValueError(\n                        f'{out_transaction.asset}",
                "new": "                    and final_balances[from_account] < ZERO\n                ):\n                    raise RP2ValueError(\n                        f'{out_transaction.asset}",
            }
        ],
    },
    {
        "id": "average-price-ignores-to-date",
        "what": "average price per unit includes lots after the to-date",
        "checks": ["C09"],
        "edits": [{"file": "rp2/computed_data.py", "old": "            if entry.timestamp.date() > to_date:\n                break\n            transaction: InTransaction", "new": "            transaction: InTransaction"}],
    },
    {
        "id": "from-date-exclusive",
        "what": "from-date bound is exclusive",
        "checks": ["C10"],
        "edits": [{"file": "rp2/abstract_entry_set.py", "old": "if result.timestamp.date() >= self.__entry_set.from_date:", "new": "if result.timestamp.date() > self.__entry_set.from_date:"}],
    },
    {
        "id": "lots-filtered-by-window",
        "what": "the matcher is fed the window's lots only",
        "checks": ["C10"],
        "edits": [{"file": TE, "old": "iter(cast(Iterable[InTransaction], input_data.unfiltered_in_transaction_set))", "new": "iter(cast(Iterable[InTransaction], input_data.filtered_in_transaction_set))"}],
    },
    {
        "id": "sold-percentage-balances-from-window",
        "what": "balances are computed from the from-date on",
        "checks": ["C10"],
        "edits": [{"file": "rp2/balance.py", "old": "            if transaction.timestamp.date() > to_date:\n                break", "new": "            if transaction.timestamp.date() > to_date:\n                break\n            if transaction.timestamp.date() < configuration.from_date:\n                continue"}],
    },
]
