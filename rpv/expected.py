"""Computation of the *same tree's* ComputedData from the very files a CLI run used (ini + ods + options), inside the
checker process: the reference for read-back monitors ("the report shows what was computed")."""

from __future__ import annotations

import os
from datetime import date
from typing import Any, Dict, List, Optional

from rpv.common import use_tree_under_test

use_tree_under_test()


class Expected:
    def __init__(self, scratch: str) -> None:
        os.chdir(scratch)
        import logging

        import rp2.accounting_engine as accounting_engine
        import rp2.configuration as configuration
        import rp2.ods_parser as ods_parser
        import rp2.tax_engine as tax_engine
        from prezzemolo.avl_tree import AVLTree

        self.m_engine = accounting_engine
        self.m_conf = configuration
        self.m_parser = ods_parser
        self.m_tax = tax_engine
        self.AVLTree = AVLTree
        self._countries: Dict[Any, Any] = {}
        self._methods: Dict[str, Any] = {}
        for handler in list(logging.getLogger("rp2").handlers):
            handler.setLevel(logging.CRITICAL)

    def country(self, code: str, ltcg: Optional[int] = None) -> Any:
        key = (code, ltcg)
        if key not in self._countries:
            if code == "generic":
                os.environ["CURRENCY_CODE"] = "usd"
                os.environ["LONG_TERM_CAPITAL_GAINS"] = str(ltcg if ltcg is not None else 365)
                from rp2.plugin.country.generic import Generic

                self._countries[key] = Generic()
            else:
                module = __import__(f"rp2.plugin.country.{code}", fromlist=["x"])
                self._countries[key] = getattr(module, code.upper())()
        return self._countries[key]

    def method(self, name: str) -> Any:
        if name not in self._methods:
            module = __import__(f"rp2.plugin.accounting_method.{name}", fromlist=["x"])
            self._methods[name] = module.AccountingMethod()
        return self._methods[name]

    def compute(
        self,
        ini: str,
        ods: str,
        country: str = "us",
        schedule: Optional[Dict[int, str]] = None,
        from_date: Optional[date] = None,
        to_date: Optional[date] = None,
        allow_negative: bool = False,
        assets: Optional[List[str]] = None,
        ltcg: Optional[int] = None,
    ) -> Dict[str, Any]:
        """schedule None = what the CLI would use without -m: the config's [accounting_methods] or the country default."""
        c = self.country(country, ltcg)
        config = self.m_conf.Configuration(ini, c, from_date=from_date or self.m_conf.MIN_DATE, to_date=to_date or self.m_conf.MAX_DATE, allow_negative_balances=allow_negative)
        if schedule is None:
            schedule = dict(config.years_2_accounting_method_names) or {1970: c.get_default_accounting_method()}
        tree = self.AVLTree()
        for year, name in schedule.items():
            tree.insert_node(int(year), self.method(name))
        engine = self.m_engine.AccountingEngine(tree)
        handle = self.m_parser.open_ods(config, ods)
        result = {}
        for asset in sorted(assets or config.assets):
            input_data = self.m_parser.parse_ods(config, asset, handle)
            result[asset] = self.m_tax.compute_tax(config, engine, input_data)
        return result
