"""In-process driver: builds RP2 objects from a history and calls the real compute_tax.

Must be used from a worker whose cwd is a scratch directory (RP2 creates ./log at import time).
"""

from __future__ import annotations

import os
from datetime import date
from decimal import Decimal
from fractions import Fraction
from typing import Any, Dict, List, Optional, Tuple

from rpv.common import use_tree_under_test

use_tree_under_test()

INI_TEMPLATE = """[general]
assets = {assets}
exchanges = {exchanges}
holders = {holders}

[in_header]
timestamp = 0
asset = 1
exchange = 2
holder = 3
transaction_type = 4
spot_price = 5
crypto_in = 6
crypto_fee = 7
fiat_in_no_fee = 8
fiat_in_with_fee = 9
fiat_fee = 10
unique_id = 11
notes = 12

[out_header]
timestamp = 0
asset = 1
exchange = 2
holder = 3
transaction_type = 4
spot_price = 5
crypto_out_no_fee = 6
crypto_fee = 7
crypto_out_with_fee = 8
fiat_out_no_fee = 9
fiat_fee = 10
unique_id = 11
notes = 12

[intra_header]
timestamp = 0
asset = 1
from_exchange = 2
from_holder = 3
to_exchange = 4
to_holder = 5
spot_price = 6
crypto_sent = 7
crypto_received = 8
unique_id = 9
notes = 10
"""


class Fraction_:
    """One gain/loss fraction as observed (plain data, no RP2 objects)."""

    __slots__ = ("event", "lot", "amount", "proceeds", "cost", "gain", "long", "event_ts", "event_type", "event_table")

    def __init__(self, event: int, lot: Optional[int], amount: Fraction, proceeds: Fraction, cost: Fraction, gain: Fraction, long: bool, event_ts: Any, event_type: str, event_table: str) -> None:
        self.event = event
        self.lot = lot
        self.amount = amount
        self.proceeds = proceeds
        self.cost = cost
        self.gain = gain
        self.long = long
        self.event_ts = event_ts
        self.event_type = event_type
        self.event_table = event_table

    def key(self) -> Tuple[Any, ...]:
        return (self.event, self.lot, self.amount, self.proceeds, self.cost, self.gain, self.long)

    def to_json(self) -> Dict[str, Any]:
        return {
            "event": self.event,
            "lot": self.lot,
            "amount": str(Decimal(self.amount.numerator) / Decimal(self.amount.denominator)),
            "proceeds": float(self.proceeds),
            "cost": float(self.cost),
            "gain": float(self.gain),
            "long": self.long,
            "type": self.event_type,
        }


def frac(value: Any) -> Fraction:
    """Exact conversion of an RP2Decimal / Decimal to a Fraction (bypasses RP2Decimal's tolerant comparisons)."""
    return Fraction(Decimal(value))


class RunResult:
    def __init__(self) -> None:
        self.ok: bool = False
        self.error_type: str = ""
        self.error: str = ""
        self.computed: Any = None
        self.input_data: Any = None
        self.emitted: List[Any] = []  # GainLoss objects in emission order (add_entry calls)


class InProc:
    """Holds imported RP2 modules and cached Configuration objects for one worker process."""

    def __init__(self, scratch: str, exchanges: Tuple[str, ...], holders: Tuple[str, ...], assets: Tuple[str, ...]) -> None:
        os.chdir(scratch)
        self.scratch = scratch
        self.ini_path = os.path.join(scratch, "inproc.ini")
        with open(self.ini_path, "w", encoding="utf-8") as handle:
            handle.write(INI_TEMPLATE.format(assets=", ".join(assets), exchanges=", ".join(exchanges), holders=", ".join(holders)))
        # imports happen here, with cwd == scratch
        import rp2.accounting_engine as accounting_engine
        import rp2.configuration as configuration
        import rp2.gain_loss_set as gain_loss_set
        import rp2.in_transaction as in_transaction
        import rp2.input_data as input_data
        import rp2.intra_transaction as intra_transaction
        import rp2.out_transaction as out_transaction
        import rp2.rp2_decimal as rp2_decimal
        import rp2.tax_engine as tax_engine
        import rp2.transaction_set as transaction_set
        from prezzemolo.avl_tree import AVLTree

        self.m_engine = accounting_engine
        self.m_conf = configuration
        self.m_gls = gain_loss_set
        self.m_in = in_transaction
        self.m_input = input_data
        self.m_intra = intra_transaction
        self.m_out = out_transaction
        self.m_dec = rp2_decimal
        self.m_tax = tax_engine
        self.m_ts = transaction_set
        self.AVLTree = AVLTree
        self._countries: Dict[Tuple[str, Optional[int]], Any] = {}
        self._configs: Dict[Tuple[Any, ...], Any] = {}
        self._methods: Dict[str, Any] = {}
        self._emitted: Optional[List[Any]] = None
        self._install_emission_monitor()
        import logging

        # keep console quiet and log files small: RP2 warns on every inconsistent optional fiat value
        for name in ("rp2",):
            logger = logging.getLogger(name)
            for handler in list(logger.handlers):
                handler.setLevel(logging.CRITICAL)

    # ---- monitors ------------------------------------------------------------------------------------

    def _install_emission_monitor(self) -> None:
        original = self.m_gls.GainLossSet.add_entry
        outer = self

        def add_entry(self_: Any, entry: Any) -> None:
            original(self_, entry)
            if outer._emitted is not None:
                outer._emitted.append(entry)

        add_entry.__wrapped__ = original  # type: ignore[attr-defined]
        self.m_gls.GainLossSet.add_entry = add_entry  # type: ignore[method-assign]

    # ---- construction --------------------------------------------------------------------------------

    def country(self, code: str = "us", ltcg: Optional[int] = None) -> Any:
        key = (code, ltcg)
        if key not in self._countries:
            if code == "generic":
                os.environ["CURRENCY_CODE"] = "usd"
                os.environ["LONG_TERM_CAPITAL_GAINS"] = str(ltcg if ltcg is not None else 365)
                from rp2.plugin.country.generic import Generic

                self._countries[key] = Generic()
            else:
                module = __import__(f"rp2.plugin.country.{code}", fromlist=["x"])
                self._countries[key] = getattr(module, code.upper())()
        return self._countries[key]

    def config(
        self,
        country: str = "us",
        ltcg: Optional[int] = None,
        from_date: Optional[date] = None,
        to_date: Optional[date] = None,
        allow_negative: bool = False,
    ) -> Any:
        key = (country, ltcg, from_date, to_date, allow_negative)
        if key not in self._configs:
            if len(self._configs) > 512:
                self._configs.clear()
            self._configs[key] = self.m_conf.Configuration(
                self.ini_path,
                self.country(country, ltcg),
                from_date=from_date or self.m_conf.MIN_DATE,
                to_date=to_date or self.m_conf.MAX_DATE,
                allow_negative_balances=allow_negative,
            )
        return self._configs[key]

    def method(self, name: str) -> Any:
        if name not in self._methods:
            module = __import__(f"rp2.plugin.accounting_method.{name}", fromlist=["x"])
            self._methods[name] = module.AccountingMethod()
        return self._methods[name]

    def engine(self, schedule: Dict[int, str]) -> Any:
        tree = self.AVLTree()
        for year, name in schedule.items():
            tree.insert_node(int(year), self.method(name))
        return self.m_engine.AccountingEngine(tree)

    def D(self, text: Optional[str]) -> Any:
        return self.m_dec.RP2Decimal(text) if text is not None else None

    def build_input(self, config: Any, hist: Dict[str, Any]) -> Any:
        asset = hist["asset"]
        sets = {
            "IN": self.m_ts.TransactionSet(config, "IN", asset),
            "OUT": self.m_ts.TransactionSet(config, "OUT", asset),
            "INTRA": self.m_ts.TransactionSet(config, "INTRA", asset),
        }
        D = self.D
        from rpv.gen import render_ts

        def ts_of(r: Dict[str, Any]) -> str:
            try:
                return render_ts(r["ts"])  # same instant and offset, one of several export formats
            except ValueError:
                return r["ts"]

        # the parser adds transactions in sheet-row order
        for r in sorted(hist["rows"], key=lambda x: x["row"]):
            if r["t"] == "IN":
                transaction = self.m_in.InTransaction(
                    config,
                    ts_of(r),
                    asset,
                    r["ex"],
                    r["ho"],
                    r["type"],
                    D(r["spot"]),
                    D(r["cin"]),
                    crypto_fee=D(r.get("cfee")),
                    fiat_in_no_fee=D(r.get("fin_nf")),
                    fiat_in_with_fee=D(r.get("fin_wf")),
                    fiat_fee=D(r.get("ffee")),
                    row=r["row"],
                    unique_id=r["uid"],
                    notes=r.get("notes") or None,
                )
            elif r["t"] == "OUT":
                transaction = self.m_out.OutTransaction(
                    config,
                    ts_of(r),
                    asset,
                    r["ex"],
                    r["ho"],
                    r["type"],
                    D(r["spot"]),
                    D(r["cout"]),
                    D(r["cfee"]),
                    crypto_out_with_fee=D(r.get("cout_wf")),
                    fiat_out_no_fee=D(r.get("fout_nf")),
                    fiat_fee=D(r.get("ffee")),
                    row=r["row"],
                    unique_id=r["uid"],
                    notes=r.get("notes") or None,
                )
            else:
                transaction = self.m_intra.IntraTransaction(
                    config,
                    ts_of(r),
                    asset,
                    r["fex"],
                    r["fho"],
                    r["tex"],
                    r["tho"],
                    D(r["spot"]) if r.get("spot") not in (None, "") else None,
                    D(r["sent"]),
                    D(r["recv"]),
                    row=r["row"],
                    unique_id=r["uid"],
                    notes=r.get("notes") or None,
                )
            sets[r["t"]].add_entry(transaction)
        return self.m_input.InputData(asset, sets["IN"], sets["OUT"], sets["INTRA"], config.from_date, config.to_date)

    # ---- execution -----------------------------------------------------------------------------------

    def run(
        self,
        hist: Dict[str, Any],
        schedule: Dict[int, str],
        country: str = "us",
        ltcg: Optional[int] = None,
        from_date: Optional[date] = None,
        to_date: Optional[date] = None,
        allow_negative: bool = False,
        engine: Any = None,
    ) -> RunResult:
        result = RunResult()
        config = self.config(country, ltcg, from_date, to_date, allow_negative)
        self._emitted = []
        try:
            input_data = self.build_input(config, hist)
            result.input_data = input_data
            result.computed = self.m_tax.compute_tax(config, engine if engine is not None else self.engine(schedule), input_data)
            result.ok = True
        except Exception as exc:  # pylint: disable=broad-except
            result.error_type = type(exc).__name__
            result.error = str(exc)[:600]
        finally:
            result.emitted = self._emitted or []
            self._emitted = None
        return result


# ---- extraction of plain data from ComputedData -----------------------------------------------------


def fraction_of(gain_loss: Any) -> Fraction_:
    event = gain_loss.taxable_event
    lot = gain_loss.acquired_lot
    table = "IN" if type(event).__name__ == "InTransaction" else ("OUT" if type(event).__name__ == "OutTransaction" else "INTRA")
    return Fraction_(
        event.row,
        lot.row if lot is not None else None,
        frac(gain_loss.crypto_amount),
        frac(gain_loss.taxable_event_fiat_amount_with_fee_fraction),
        frac(gain_loss.fiat_cost_basis),
        frac(gain_loss.fiat_gain),
        bool(gain_loss.is_long_term_capital_gains()),
        event.timestamp,
        event.transaction_type.value.upper(),
        table,
    )


def trace_of(computed: Any) -> List[Fraction_]:
    return [fraction_of(g) for g in computed.gain_loss_set]


def yearly_of(computed: Any) -> List[Tuple[int, str, str, bool, Fraction, Fraction, Fraction, Fraction]]:
    return [
        (
            y.year,
            y.asset,
            y.transaction_type.value.upper(),
            bool(y.is_long_term_capital_gains),
            frac(y.crypto_amount),
            frac(y.fiat_amount),
            frac(y.fiat_cost_basis),
            frac(y.fiat_gain_loss),
        )
        for y in computed.yearly_gain_loss_list
    ]


def balances_of(computed: Any) -> List[Tuple[str, str, Fraction, Fraction, Fraction, Fraction]]:
    return [
        (b.exchange, b.holder, frac(b.acquired_balance), frac(b.sent_balance), frac(b.received_balance), frac(b.final_balance))
        for b in computed.balance_set
    ]


def labels_of(computed: Any) -> List[Tuple[int, Optional[int], int, int, Optional[int], Optional[int]]]:
    """(event, lot, k_event, n_event, k_lot, n_lot) for every fraction of the filtered set."""
    result = []
    gls = computed.gain_loss_set
    for g in gls:
        ke = gls.get_taxable_event_fraction(g) + 1
        ne = gls.get_taxable_event_number_of_fractions(g.taxable_event)
        kl = nl = None
        if g.acquired_lot is not None:
            kl = gls.get_acquired_lot_fraction(g) + 1
            nl = gls.get_acquired_lot_number_of_fractions(g.acquired_lot)
        result.append((g.taxable_event.row, g.acquired_lot.row if g.acquired_lot is not None else None, ke, ne, kl, nl))
    return result
