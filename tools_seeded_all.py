"""Re-evaluate every seeded change against its own property's check (quick tier):

    python tools_seeded_all.py [--all-checks] [--jobs N] [--only C05,C07k]

Each change is evaluated by tools_seeded_intake.py --re in its own scratch copy; --jobs runs several at a time."""
import glob
import json
import os
import subprocess
import sys
from concurrent.futures import ThreadPoolExecutor

HERE = os.path.dirname(os.path.abspath(__file__))
jobs = int(sys.argv[sys.argv.index("--jobs") + 1]) if "--jobs" in sys.argv else 1
only = [x for x in sys.argv[sys.argv.index("--only") + 1].split(",") if x] if "--only" in sys.argv else []


def evaluate(path: str):
    name = os.path.basename(os.path.dirname(path))
    meta = json.load(open(path))
    own = meta.get("property", name[:3])
    checks = ",".join(meta.get("checks", {})) if "--all-checks" in sys.argv else own
    proc = subprocess.run([sys.executable, os.path.join(HERE, "tools_seeded_intake.py"), os.path.join(HERE, "seeded", name), "--re", "--checks", checks], capture_output=True, text=True)
    line = next((l for l in proc.stdout.splitlines() if l.startswith(name)), proc.stdout[-200:] + proc.stderr[-200:])
    print(line, flush=True)
    return name, f"{own}:CAUGHT" in line


paths = [p for p in sorted(glob.glob(os.path.join(HERE, "seeded", "*", "meta.json"))) if not only or any(os.path.basename(os.path.dirname(p)).startswith(o) for o in only)]
with ThreadPoolExecutor(max_workers=jobs) as pool:
    results = list(pool.map(evaluate, paths))
print("own-check misses:", [name for name, caught in results if not caught])
