"""Re-evaluate every seeded change against its own property's check (quick tier): python tools_seeded_all.py [--all-checks]"""
import glob
import json
import os
import subprocess
import sys

HERE = os.path.dirname(os.path.abspath(__file__))
missed = []
for path in sorted(glob.glob(os.path.join(HERE, "seeded", "*", "meta.json"))):
    name = os.path.basename(os.path.dirname(path))
    meta = json.load(open(path))
    own = meta.get("property", name[:3])
    checks = ",".join(meta.get("checks", {})) if "--all-checks" in sys.argv else own
    proc = subprocess.run([sys.executable, os.path.join(HERE, "tools_seeded_intake.py"), os.path.join(HERE, "seeded", name), "--re", "--checks", checks], capture_output=True, text=True)
    line = next((l for l in proc.stdout.splitlines() if l.startswith(name)), proc.stdout[-200:] + proc.stderr[-200:])
    print(line, flush=True)
    if f"{own}:CAUGHT" not in line:
        missed.append(name)
print("own-check misses:", missed)
