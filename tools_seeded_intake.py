"""Take in an independent seeded change: copy <src>/{patch.diff,demo.py,notes.md} to seeded/<id>/, evaluate it with
tools_seeded.py (scratch copy of /repo, stable tests, demo with/without, the named checks) and write seeded/<id>/meta.json.

    python tools_seeded_intake.py <src-dir> --what "..." --needs "..." [--checks C12,C16] [--tier quick]
Re-evaluation of an existing entry (after strengthening a check): python tools_seeded_intake.py seeded/<id> --re
"""

import argparse
import json
import os
import shutil
import subprocess
import sys

HERE = os.path.dirname(os.path.abspath(__file__))


def main() -> int:
    parser = argparse.ArgumentParser()
    parser.add_argument("src")
    parser.add_argument("--what", default="")
    parser.add_argument("--needs", default="")
    parser.add_argument("--checks", default="")
    parser.add_argument("--tier", default="quick")
    parser.add_argument("--re", action="store_true")
    args = parser.parse_args()
    name = os.path.basename(args.src.rstrip("/"))
    dest = os.path.join(HERE, "seeded", name)
    if not args.re:
        os.makedirs(dest, exist_ok=True)
        for item in ("patch.diff", "demo.py", "notes.md"):
            shutil.copy(os.path.join(args.src, item), dest)
    meta_path = os.path.join(dest, "meta.json")
    meta = json.load(open(meta_path)) if os.path.exists(meta_path) else {}
    prop = name[:3]
    checks = args.checks or ",".join(meta.get("checks", {}).keys()) or prop
    command = [sys.executable, os.path.join(HERE, "tools_seeded.py"), dest, "--checks", checks, "--tier", args.tier]
    if args.re and meta.get("confirmed", {}).get("stable_tests_with_change"):
        command.append("--skip-tests")
    proc = subprocess.run(command, capture_output=True, text=True)
    start = proc.stdout.find("{")
    record = json.loads(proc.stdout[start:])
    meta.setdefault("id", name)
    meta.setdefault("property", prop)
    if args.what:
        meta["what"] = args.what
    if args.needs:
        meta["needs_to_manifest"] = args.needs
    meta.setdefault("source", "independent sub-agent given only the property text and its own scratch worktree of /repo")
    confirmed = meta.setdefault("confirmed", {})
    confirmed["patch_applies_to_repo_head"] = record.get("patch_applies")
    if "stable_tests" in record:
        confirmed["stable_tests_with_change"] = record["stable_tests"]
    confirmed["demo_exit_with_change"] = record.get("demo_with_change")
    confirmed["demo_exit_without_change"] = record.get("demo_without_change")
    confirmed["how"] = f"python tools_seeded.py seeded/{name} (scratch copy of /repo's tree, patch applied there; /repo itself untouched)"
    results = meta.setdefault("checks", {})
    for check, value in record.get("checks", {}).items():
        previous = results.get(check)
        entry = {"caught": value["caught"], "exit": value["exit"], "rule": value["rule"], "tier": args.tier, "wall_s": value["wall_s"]}
        if previous and previous.get("caught") is False and value["caught"]:
            entry["missed_before_strengthening"] = True
        if previous and previous.get("missed_before_strengthening"):
            entry["missed_before_strengthening"] = True
        results[check] = entry
    with open(meta_path, "w", encoding="utf-8") as handle:
        json.dump(meta, handle, indent=1)
    ok = record.get("patch_applies") and record.get("stable_tests_pass", True) and record.get("demo_with_change") not in (0, None) and record.get("demo_without_change") == 0
    print(f"{name}: confirmed={bool(ok)} tests={record.get('stable_tests')} demo={record.get('demo_with_change')}/{record.get('demo_without_change')} " + " ".join(f"{k}:{'CAUGHT' if v['caught'] else 'MISSED(exit %s)' % v['exit']}" for k, v in record.get("checks", {}).items()))
    for k, v in record.get("checks", {}).items():
        print(f"   {k} {v['rule'][:220]}")
    return 0


if __name__ == "__main__":
    sys.exit(main())
