"""Regenerates MANIFEST.json from the check modules (run by hand after adding a check): python tools_gen_manifest.py"""

import importlib
import json
import os
import sys

sys.path.insert(0, os.path.dirname(os.path.abspath(__file__)))

TEXT = {
    "C01": ("online trace checker over the fraction history (in-process and CLI Gain / Loss Detail): no available lot may strictly outrank the chosen lot under the method in force", "runtime monitoring: offline checker over recorded fraction traces against the input lots (ordering)"),
    "C02": ("conservation checker over the fraction trace (per-event coverage, per-lot prefix sums, lot-before-event) plus must-fail / must-succeed decided from the input; CLI exit status and Sent/Sold % read-back", "runtime monitoring: conservation checker over recorded traces + fail-closed observation at the process boundary"),
    "C03": ("exactly-once / no-loss checker between input rows and reported taxable events and fractions (in-process and CLI reports)", "runtime monitoring: exactly-once checker between producer rows and consumer events"),
    "C04": ("every fraction recomputed in exact rational arithmetic from the input fields (1e-15 bound, re-assembly), sys.monitoring CALL monitor for binary floats, exact canary inputs; CLI slice: Proceeds / Cost Basis / Gain of the detail table and of tax_report_us.ods recomputed from the spreadsheet rows", "runtime monitoring: reference-arithmetic oracle + sys.monitoring float-intrusion detector"),
    "C05": ("boundary workload around the holding-period threshold of every country plugin; each fraction's flag compared with whole days between UTC instants (in-process and CLI reports)", "runtime monitoring: oracle on observed long/short flags under a boundary workload"),
    "C06": ("yearly lines compared with exact sums over the observed fractions per (own-year, asset, type, long/short), with to/from dates; CLI Summary sheet vs detail table", "runtime monitoring: conservation checker (summary = sum of detail) over observed runs"),
    "C07": ("reported balances compared with per-account flows recomputed from the input, reconciliation of final balances with unconsumed lots of the observed trace, with to-dates, from-dates and both -n values; CLI Account Balances table", "runtime monitoring: conservation checker over observed balances and traces"),
    "C08": ("three-valued temporal overdraft oracle over the input vs observed acceptance / rejection with both -n values (in-process and CLI exit status, error text, output directory), also seen through from / from+to windows", "runtime monitoring: temporal oracle on accept/reject outcomes under overdraft mutations"),
    "C09": ("relational monitor: prefix run vs extended run for every cut point and tempting continuation; to-date run vs truncated history (in-process and CLI report pairs)", "runtime monitoring: relational checker over pairs of runs (prefix vs extension)"),
    "C10": ("relational monitor: filtered vs unfiltered vs to-only runs (rows shown, figures, labels, balances, average price, yearly lines), absolute recount of the k/n labels from the unfiltered trace, -n relation for valid histories, in-process and CLI report pairs", "runtime monitoring: relational checker over pairs of runs (filtered vs unfiltered)"),
    "C11": ("parse_ods output compared field by field with generator-owned ground-truth rows over random column layouts, table orders, junk columns and blank rows; CLI In/Out/Intra-Flow tables", "runtime monitoring: exactly-once field-by-field checker of parsed transactions against ground truth"),
    "C12": ("every documented fault class injected at the applicable sheet / table / row / field / section positions of valid inputs; real CLI runs observed at the process boundary (exit status, message, no report written)", "runtime monitoring: fault injection with process-boundary observation"),
    "C13": ("every cell of rp2_full_report.ods written by real CLI runs read back and compared with the input and with the same tree's ComputedData (values, formula payloads, labels, table sizes, Legend)", "runtime monitoring: read-back monitor on written artefacts"),
    "C14": ("every row of every sheet of tax_report_us.ods / tax_report_ie.ods read back: multiset of rows equals the window's fractions, each on the sheet of its type, empty sheets absent, no row lost or overwritten", "runtime monitoring: read-back monitor on written artefacts (routing + completeness)"),
    "C15": ("open_positions.ods read back and reconciled with the balance model, the observed fraction trace of the same run and the conservation law realized + unrealized = acquired; cross-report reconciliation of the reports of one run under to-date cuts between inverted own dates", "runtime monitoring: read-back monitor + conservation checker across reports of one run"),
    "C16": ("the whole option matrix (136 tuples, each with its own window) plus [accounting_methods] schedules enumerated per generated input (shapes incl. inverted own dates, same-instant transfer then sale) and run through the real CLI; exit status, stderr and produced files observed", "runtime monitoring: process-boundary observation over the enumerated option matrix"),
    "C17": ("relational monitors over tuples of real runs: hash seeds, pre-filled output directory, permuted rows / tables / sheets (CLI, and in-process at volume with sub-second timestamps), asset subsets, second run in one interpreter; semantic content of every report compared", "runtime monitoring: relational checker over tuples of runs (metamorphic relations)"),
    "C18": ("interpreter audit hooks injected into every CLI subprocess (sockets, spawn, exec, file writes, imports with direct importer) cross-checked by strace at syscall level, input hashes, import sweep of all modules; workload includes every environment variable RP2 was observed consulting, C12's fault catalogue, hard errors and large inputs", "runtime monitoring: audit-hook and syscall-trace monitors"),
    "C19": ("every HYPERLINK formula of the Tax and Summary sheets parsed and its target row compared with the transaction it stands for; hidden transactions must carry no link", "runtime monitoring: read-back monitor on written artefacts (link targets)"),
    "C20": ("sheet names, transaction rows and cross-sheet formula text of tax_report_jp.ods read back: sheet set, rows vs input, opening balances chained to the structurally located closing cells of the most recent earlier year", "runtime monitoring: read-back monitor on written artefacts (sheet set + formula chaining)"),
}
NOT_YET = {}

checks = []
not_applicable = []
for n in range(1, 21):
    pid = f"C{n:02d}"
    try:
        module = importlib.import_module(f"rpv.checks.{pid.lower()}")
    except ImportError:
        not_applicable.append({"property_id": pid, "reason": NOT_YET.get(pid, "check not built yet (runtime-monitoring design in DESIGN.md); nothing is claimed for it in this commit")})
        continue
    level = getattr(module, "LEVEL", "exploration")
    checks.append(
        {
            "property_id": pid,
            "quick_cmd": f"/venv/bin/python -m rpv {pid} --tier quick",
            "thorough_cmd": f"/venv/bin/python -m rpv {pid} --tier thorough",
            "evidence_file": f"/verif/evidence/{pid}.json",
            "replay_cmd_template": f"/venv/bin/python -m rpv {pid} --replay {{path}}",
            "engine": "rpv",
            "level_claimed": {
                "category": level,
                "text": f"Held on the executions observed, nothing more: {TEXT[pid][0]}. Evidence reports executions, distinct non-trivial cases, events checked and coverage tags; a run whose deciding monitor was not reached exits 2 (inconclusive).",
                "design_ref": f"DESIGN.md section 3, {pid}",
            },
            "level_note": "Trusted base: CPython 3.12, ezodf (for reading back what RP2 wrote with it), the generators' notion of a valid history, and the oracle code under /verif/rpv/oracle. Paths no workload drives are not covered. " + "; ".join(getattr(module, "ASSUMPTIONS", [])),
            "technique": TEXT[pid][1],
        }
    )

manifest = {
    "version": 1,
    "setup_cmd": "/venv/bin/python -m rpv.setup_check",
    "hooks": {
        "guard": "RP2_VERIF",
        "enable": "no source hooks are needed: all instrumentation is attached from outside (sys.monitoring LINE/CALL monitors, wrapper on GainLossSet.add_entry installed by the harness, audit-hook sitecustomize injected through PYTHONPATH, strace). Checks set RP2_VERIF=1 in their subprocesses for uniformity; the repository never reads it.",
        "baseline_off_cmd": "cd /repo && /venv/bin/python -m pytest -ra -q -p no:cacheprovider --timeout=900 --continue-on-collection-errors",
        "source_commits": [],
        "add_only": True,
    },
    "engines": [
        {
            "name": "rpv",
            "path": "/verif/rpv",
            "serves_properties": [c["property_id"] for c in checks],
            "kind_free_text": "runtime monitoring framework: seeded hostile workload generators plus the repository's own example inputs, in-process and CLI drivers of the real code, offline trace / relational / read-back / audit oracles, mutation self-test (python -m rpv.selftest)",
        }
    ],
    "checks": checks,
    "not_applicable": not_applicable,
    "notes": "Technique family: runtime monitoring. Sanitizers, race detectors and linearizability checkers do not apply (single-threaded pure Python, no native code). Exit codes: 0 held on observed, 1 violation, 2 inconclusive. Known findings: KNOWN_FINDINGS.txt (read-only at run time). Repository defects repaired by separate 'fix:' commits in /repo are listed there as 'fixed:' lines.",
}
with open(os.path.join(os.path.dirname(os.path.abspath(__file__)), "MANIFEST.json"), "w", encoding="utf-8") as handle:
    json.dump(manifest, handle, indent=1)
    handle.write("\n")
print(f"{len(checks)} checks, {len(not_applicable)} not claimed")
