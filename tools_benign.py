"""Evaluate behaviour-preserving changes (benign/<id>/patch.diff): none of the checks may raise an alarm on them.

    python tools_benign.py <dir-with-patch.diff> [<dir> ...] [--checks C01,C02] [--tier quick]

For each directory: scratch copy of /repo's tree (outside /repo and /verif), patch applied, the 48-test baseline run against it,
then every check (default: all 20) run with VP_RP2_SRC pointing at the patched copy; evidence and replays go to the scratch
directory. Writes <dir>/result.json and prints one line per patch. Exit 1 if any check exits non-zero on any patch.
"""

import argparse
import json
import os
import shutil
import subprocess
import sys
import tempfile
import time

REPO = "/repo"
PY = "/venv/bin/python"
HERE = os.path.dirname(os.path.abspath(__file__))
STABLE = "tests/test_accounting_method.py tests/test_balance.py tests/test_configuration.py tests/test_gain_loss.py tests/test_gain_loss_set.py tests/test_in_transaction.py tests/test_input_parser.py tests/test_intra_transaction.py tests/test_out_transaction.py tests/test_rp2_decimal.py tests/test_tax_engine.py tests/test_transaction_set.py".split()


def main() -> int:
    parser = argparse.ArgumentParser()
    parser.add_argument("directories", nargs="+")
    parser.add_argument("--checks", default="")
    parser.add_argument("--tier", default="quick")
    args = parser.parse_args()
    checks = [c for c in args.checks.split(",") if c] or [f"C{n:02d}" for n in range(1, 21)]
    bad = 0
    for directory in args.directories:
        directory = os.path.abspath(directory)
        name = os.path.basename(directory.rstrip("/"))
        scratch = tempfile.mkdtemp(prefix="vp-benign-")
        record = {"id": name, "checks": {}}
        try:
            work = os.path.join(scratch, "repo")
            os.makedirs(work)
            for item in ("src", "tests", "config", "input", "setup.cfg", "pyproject.toml", "mypy.ini"):
                source = os.path.join(REPO, item)
                if os.path.isdir(source):
                    shutil.copytree(source, os.path.join(work, item), ignore=shutil.ignore_patterns("__pycache__", "*.egg-info", "golden"))
                elif os.path.exists(source):
                    shutil.copy(source, work)
            proc = subprocess.run(["git", "apply", "--unsafe-paths", "--directory", work, os.path.join(directory, "patch.diff")], cwd=work, capture_output=True, text=True)
            if proc.returncode != 0:
                # /repo has moved on since the patch was written (a later fix: commit touches the same file): apply with fuzz
                proc = subprocess.run(["patch", "-p1", "-s", "--fuzz=3", "-i", os.path.join(directory, "patch.diff")], cwd=work, capture_output=True, text=True)
            record["patch_applies"] = proc.returncode == 0
            if proc.returncode != 0:
                record["patch_error"] = (proc.stderr + proc.stdout)[-300:]
                print(f"{name}: patch does not apply: {record['patch_error']}")
                continue
            src = os.path.join(work, "src")
            env = dict(os.environ, PYTHONPATH=src, PYTHONDONTWRITEBYTECODE="1")
            proc = subprocess.run([PY, "-m", "pytest", "-q", "-p", "no:cacheprovider", "--timeout=900"] + STABLE, cwd=work, env=env, capture_output=True, text=True, timeout=1800)
            tail = proc.stdout.strip().splitlines()[-1] if proc.stdout.strip() else ""
            record["stable_tests"] = tail
            alarms = []
            for check in checks:
                env = dict(os.environ, VP_RP2_SRC=src, RPV_EVIDENCE_DIR=os.path.join(scratch, "evidence"), RPV_REPLAY_DIR=os.path.join(scratch, "replays"))
                t0 = time.time()
                proc = subprocess.run([PY, "-m", "rpv", check, "--tier", args.tier], cwd=HERE, env=env, capture_output=True, text=True, timeout=7200)
                rule = next((l.strip()[:400] for l in proc.stdout.splitlines() if l.strip().startswith(("rule=", "INCONCLUSIVE"))), "")
                record["checks"][check] = {"exit": proc.returncode, "rule": rule, "wall_s": round(time.time() - t0, 1)}
                if proc.returncode != 0:
                    alarms.append(check)
                    replays = os.path.join(scratch, "replays")
                    if os.path.isdir(replays):
                        keep = os.path.join(directory, "replays")
                        os.makedirs(keep, exist_ok=True)
                        for f in os.listdir(replays):
                            shutil.copy(os.path.join(replays, f), keep)
            record["alarms"] = alarms
            bad += len(alarms)
            print(f"{name}: tests={tail!r} alarms={alarms or 'none'}", flush=True)
            for check in alarms:
                print(f"   {check} exit={record['checks'][check]['exit']} {record['checks'][check]['rule'][:300]}", flush=True)
        finally:
            with open(os.path.join(directory, "result.json"), "w", encoding="utf-8") as handle:
                json.dump(record, handle, indent=1)
            shutil.rmtree(scratch, ignore_errors=True)
    return 1 if bad else 0


if __name__ == "__main__":
    sys.exit(main())
