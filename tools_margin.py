"""Margins of the quick/thorough minimum counts: prints every counter that is below 2x its minimum in the committed evidence
(a minimum close to the measured value turns ordinary seed-to-seed variation into an INCONCLUSIVE run)."""
import importlib
import json
import sys

tier = sys.argv[1] if len(sys.argv) > 1 else "quick"
evidence_dir = sys.argv[2] if len(sys.argv) > 2 else "evidence"
for n in range(1, 21):
    pid = f"C{n:02d}"
    mod = importlib.import_module(f"rpv.checks.c{n:02d}")
    ev = json.load(open(f"{evidence_dir}/{pid}.json"))
    if ev.get("tier", tier) != tier:
        print(pid, "evidence is for tier", ev.get("tier"))
        continue
    text = json.dumps(ev)
    counters = {}
    def walk(o):
        if isinstance(o, dict):
            for k, v in o.items():
                if isinstance(v, (int, float)) and not isinstance(v, bool):
                    counters.setdefault(k, v)
                walk(v)
        elif isinstance(o, list):
            for x in o:
                walk(x)
    walk(ev)
    for name, minimum in mod.SETTINGS[tier].get("minimums", {}).items():
        key = "distinct_nontrivial" if name == "nontrivial" else name
        got = counters.get(key)
        if got is None:
            print(f"{pid} {name}: minimum {minimum}, counter not found in evidence")
        elif got < 2 * minimum:
            print(f"{pid} {name}: minimum {minimum}, measured {got}  ({got / minimum:.2f}x)")
