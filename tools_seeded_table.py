"""Print the markdown table of DESIGN.md section 10 from seeded/*/meta.json."""

import glob
import json
import os

HERE = os.path.dirname(os.path.abspath(__file__))
rows = []
for path in sorted(glob.glob(os.path.join(HERE, "seeded", "*", "meta.json"))):
    m = json.load(open(path))
    checks = m.get("checks", {})
    caught = [c for c, v in checks.items() if v.get("caught")]
    missed = [c for c, v in checks.items() if not v.get("caught")]
    strengthened = [c for c, v in checks.items() if v.get("missed_before_strengthening")]
    own = m.get("property", m["id"][:3])
    rule = (checks.get(own, {}).get("rule") or "").replace("rule=", "").split(" detail=")[0]
    what = m.get("what", "").replace("|", "/")
    needs = m.get("needs_to_manifest", "").replace("|", "/")
    note = []
    if strengthened:
        note.append("missed at first by " + ", ".join(strengthened) + " (strengthened)")
    if missed:
        note.append("not caught by " + ", ".join(f"{c} (exit {checks[c].get('exit')})" for c in missed))
    rows.append(f"| {m['id']} | {what} | {needs} | {', '.join(caught) or '-'} | `{rule}` | {'; '.join(note)} |")
print("| id | change | needs | caught by | rule of the property's own check | notes |")
print("|----|--------|-------|-----------|----------------------------------|-------|")
print("\n".join(rows))
